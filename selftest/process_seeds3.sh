#!/bin/bash
# wave 3: selftest/process_seeds3.sh C01 C02 ...  -> ids <P>-3A / <P>-3B from /tmp/seed3_<P>_out/{A,B}
cd /verif
for P in "$@"; do
  for X in A B; do
    src=/tmp/seed3_${P}_out/$X
    [ -f $src/patch.diff ] && [ -f $src/demo.py ] && [ -f $src/meta.json ] || { echo "$P-3$X incomplete"; continue; }
    id=${P}-3${X}
    echo "== $id intake"; python3 selftest/seeded.py intake $src $id $P --tests
    echo "== $id check";  python3 selftest/seeded.py check $id
  done
done
