#!/usr/bin/env python3
"""Break-test runner: selftest/run.py [name ...] [--all] [--tests]  -> selftest/results.json

For each mutant: scratch git worktree of /repo under /tmp (removed afterwards), text replacement, then the quick check of every
listed property with VERIF_REPO pointing at the scratch tree. A non-equivalent mutant must give exit 1; an equivalent one exit 0."""
import json, os, subprocess, sys, tempfile, time
HERE = os.path.dirname(os.path.abspath(__file__))
sys.path.insert(0, HERE)
from catalogue import M

def run(name, with_tests=False, only_props=None):
    m = M[name]
    w = tempfile.mkdtemp(prefix="mut.", dir="/tmp")
    os.rmdir(w)
    subprocess.run(["git", "-C", "/repo", "worktree", "add", "--detach", "-q", w, "HEAD"], check=True)
    res = dict(name=name, props={}, equivalent=bool(m.get("equivalent")))
    try:
        p = os.path.join(w, m["file"])
        s = open(p).read()
        if s.count(m["old"]) < 1:
            res["error"] = "pattern not found"
            return res
        open(p, "w").write(s.replace(m["old"], m["new"], 1))
        if with_tests:
            r = subprocess.run(["/venv/bin/python", "-m", "pytest", "-q", "-p", "no:cacheprovider", "--timeout=900", "-n", "14", "tests"],
                               cwd=w, capture_output=True, text=True, env=dict(os.environ, PYTHONPATH=w))
            tail = [l for l in r.stdout.splitlines() if " passed" in l or " failed" in l][-1:]
            failed = [l for l in r.stdout.splitlines() if l.startswith("FAILED") and "TestGradientNormAdditional::test_2d" not in l]
            res["tests"] = dict(summary=tail, new_failures=len(failed))
        for prop in (only_props or m["props"]):
            if not os.path.exists(os.path.join(HERE, "..", "rv", "props", prop.lower() + ".py")):
                res["props"][prop] = "no-monitor-yet"
                continue
            t0 = time.time()
            r = subprocess.run(["./check", prop, "--tier", "quick", "--no-evidence"], cwd=os.path.join(HERE, ".."),
                               capture_output=True, text=True, env=dict(os.environ, VERIF_REPO=w))
            mons = sorted({l.split("monitor=")[1].split()[0] for l in r.stdout.splitlines() if l.startswith("   violation:")})
            res["props"][prop] = dict(rc=r.returncode, monitors=mons, wall=round(time.time() - t0, 1))
    finally:
        subprocess.run(["git", "-C", "/repo", "worktree", "remove", "--force", w])
        subprocess.run(["rm", "-rf", w])
    return res

if __name__ == "__main__":
    args = [a for a in sys.argv[1:] if not a.startswith("--")]
    names = list(M) if "--all" in sys.argv else args
    only = None
    for a in sys.argv[1:]:
        if a.startswith("--props="):
            only = a.split("=")[1].split(",")
    path = os.path.join(HERE, "results.json")
    allres = json.load(open(path)) if os.path.exists(path) else {}
    for n in names:
        r = run(n, with_tests="--tests" in sys.argv, only_props=only)
        prev = allres.get(n, {})
        prev_props = prev.get("props", {})
        prev_props.update(r["props"])
        r["props"] = prev_props
        if "tests" not in r and "tests" in prev:
            r["tests"] = prev["tests"]
        allres[n] = r
        print(json.dumps(r))
        json.dump(allres, open(path, "w"), indent=1, sort_keys=True)
