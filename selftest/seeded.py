#!/usr/bin/env python3
"""Intake and re-check of independently written breaking changes.

  selftest/seeded.py intake <src_dir> <id> <PROP> [--tests]    copy patch.diff/demo.py/meta.json to /verif/seeded/<id>/, confirm in a scratch worktree:
                                                        demo passes on the unchanged tree, fails with the patch, (optionally) the unedited test-suite still passes
  selftest/seeded.py check <id> [PROP ...] [--tier quick]      run the listed (default: the property it targets) checks against the patched scratch tree
Everything happens in a git worktree under /tmp which is removed afterwards; /repo itself is never modified."""
import json, os, shutil, subprocess, sys, tempfile
HERE = os.path.dirname(os.path.abspath(__file__))
VERIF = os.path.dirname(HERE)


def worktree():
    w = tempfile.mkdtemp(prefix="seedchk.", dir="/tmp")
    os.rmdir(w)
    subprocess.run(["git", "-C", "/repo", "worktree", "add", "--detach", "-q", w, "HEAD"], check=True)
    return w


def drop(w):
    subprocess.run(["git", "-C", "/repo", "worktree", "remove", "--force", w])
    subprocess.run(["rm", "-rf", w])


def demo(w, path):
    r = subprocess.run(["/venv/bin/python", path], cwd=w, env=dict(os.environ, PYTHONPATH=w, JAX_PLATFORMS="cpu"), capture_output=True, text=True, timeout=1800)
    return r.returncode, (r.stdout + r.stderr)[-400:]


def intake(src, sid, prop, tests):
    dst = os.path.join(VERIF, "seeded", sid)
    os.makedirs(dst, exist_ok=True)
    for f in ("patch.diff", "demo.py", "meta.json"):
        shutil.copy(os.path.join(src, f), os.path.join(dst, f))
    meta = json.load(open(os.path.join(dst, "meta.json")))
    meta["property"] = prop
    w = worktree()
    conf = {}
    try:
        rc0, _ = demo(w, os.path.join(dst, "demo.py"))
        conf["demo_unchanged_rc"] = rc0
        a = subprocess.run(["git", "-C", w, "apply", os.path.join(dst, "patch.diff")], capture_output=True, text=True)
        conf["patch_applies"] = a.returncode == 0
        if a.returncode == 0:
            rc1, out = demo(w, os.path.join(dst, "demo.py"))
            conf["demo_changed_rc"] = rc1
            conf["demo_changed_tail"] = out[-200:]
            if tests:
                r = subprocess.run(["/venv/bin/python", "-m", "pytest", "-q", "-p", "no:cacheprovider", "--timeout=900", "-n", "12", "tests"], cwd=w,
                                   env=dict(os.environ, PYTHONPATH=w), capture_output=True, text=True)
                summ = [l for l in r.stdout.splitlines() if " passed" in l or " failed" in l][-1:]
                failed = [l for l in r.stdout.splitlines() if l.startswith("FAILED") and "TestGradientNormAdditional::test_2d" not in l]
                conf["tests"] = dict(summary=summ, new_failures=failed[:5])
    finally:
        drop(w)
    meta["confirmed_by_me"] = conf
    json.dump(meta, open(os.path.join(dst, "meta.json"), "w"), indent=1)
    print(json.dumps(conf))


def check(sid, props, tier):
    dst = os.path.join(VERIF, "seeded", sid)
    meta = json.load(open(os.path.join(dst, "meta.json")))
    props = props or [meta["property"]]
    w = worktree()
    res = {}
    try:
        subprocess.run(["git", "-C", w, "apply", os.path.join(dst, "patch.diff")], check=True)
        for p in props:
            r = subprocess.run(["./check", p, "--tier", tier, "--no-evidence"], cwd=VERIF, env=dict(os.environ, VERIF_REPO=w), capture_output=True, text=True)
            mons = sorted({l.split("monitor=")[1].split()[0] for l in r.stdout.splitlines() if l.startswith("   violation:")})
            res[p] = dict(rc=r.returncode, tier=tier, monitors=mons)
    finally:
        drop(w)
    meta.setdefault("checks_run", {}).update(res)
    json.dump(meta, open(os.path.join(dst, "meta.json"), "w"), indent=1)
    print(sid, json.dumps(res))


if __name__ == "__main__":
    args = [a for a in sys.argv[1:] if not a.startswith("--")]
    tier = "quick"
    for a in sys.argv[1:]:
        if a.startswith("--tier="):
            tier = a.split("=")[1]
    if args[0] == "intake":
        intake(args[1], args[2], args[3], "--tests" in sys.argv)
    else:
        check(args[1], args[2:], tier)
