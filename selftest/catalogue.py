"""Break tests: one-line changes to exponax that the monitors must (or, for equivalent ones, must not) flag.
name -> dict(file, old, new, props=[checks expected to fire], equivalent=bool)"""
M = {
 "M01_cross_sign": dict(file="exponax/nonlin_fun/_projected_convection.py", old="c2 = a[2] * b[0] - a[0] * b[2]", new="c2 = a[0] * b[2] - a[2] * b[0]", props=["C03", "C09", "C10"]),
 "M02_dealias_cutoff": dict(file="exponax/nonlin_fun/_base.py", old="cutoff=start_of_aliased_modes - 1,", new="cutoff=start_of_aliased_modes,", props=["C03"]),
 "M03_etdrk3_c4": dict(file="exponax/etdrk/_etdrk_3.py", old="c4 = ((4.0 * (2.0 + lr", new="c4 = ((2.0 * (2.0 + lr", props=["C02"]),
 "M04_dispersion_mix_sign": dict(file="exponax/stepper/_dispersion.py", old="linear_operator = advection_operator * laplace_operator", new="linear_operator = -advection_operator * laplace_operator", props=["C01"]),
 "M05_gradnorm_half": dict(file="exponax/nonlin_fun/_gradient_norm.py", old="u_gradient_norm_squared_hat = 0.5 * self.fft(u_gradient_norm_squared)", new="u_gradient_norm_squared_hat = self.fft(u_gradient_norm_squared)", props=["C03", "C13"]),
 "M06_vort_axis": dict(file="exponax/nonlin_fun/_vorticity_convection.py", old="v_hat = -self.derivative_operator[0:1] * stream_function_hat", new="v_hat = -self.derivative_operator[1:2] * stream_function_hat", props=["C03", "C08", "C09"]),
 "M07_injection_sign": dict(file="exponax/nonlin_fun/_vorticity_convection.py", old="            -injection_mode\n", new="            injection_mode\n", props=["C12"]),
 "M08_spectrum_bin_edge": dict(file="exponax/_spectral.py", old="mask = (wavenumbers_norm[0] >= lower_limit) & (\n            wavenumbers_norm[0] < upper_limit\n        )", new="mask = (wavenumbers_norm[0] > lower_limit) & (\n            wavenumbers_norm[0] <= upper_limit\n        )", props=["C17"], equivalent=True),
 "M09_interp_scaling": dict(file="exponax/_interpolation.py", old="                mode=\"reconstruction\",\n                indexing=indexing,", new="                mode=\"coef_extraction\",\n                indexing=indexing,", props=["C15"]),
 "M10_fourier_metric_scaling": dict(file="exponax/metrics/_fourier.py", old="        mode=\"reconstruction\",\n    )\n\n    scale = ", new="        mode=\"norm_compensation\",\n    )\n\n    scale = ", props=["C16"]),
 "M11_difficulty_formula": dict(file="exponax/stepper/generic/_utils.py", old="2 ** (j - 1)", new="2**j", props=["C13"]),
 "M12_wave_drift": dict(file="exponax/stepper/_wave.py", old="u_hat_next = u_hat_next.at[h_dc_idx].add(self.dt * u_hat[v_dc_idx])", new="u_hat_next = u_hat_next.at[h_dc_idx].add(0.5 * self.dt * u_hat[v_dc_idx])", props=["C01"]),
 "M13_leray_guard": dict(file="exponax/nonlin_fun/_leray.py", old="laplace_operator != 0, 1.0 / laplace_operator, 0.0", new="laplace_operator != 0, 1.0 / laplace_operator, 1.0", props=["C10", "C09"], equivalent=True),
 "M14_diffusion_offdiag": dict(file="exponax/stepper/_diffusion.py", old="\"ij,ij...->...\",\n            self.diffusivity,", new="\"ii,ii...->...\",\n            self.diffusivity,", props=["C01"]),
 "M15_conv_cons_axis": dict(file="exponax/nonlin_fun/_convection.py", old="            self.derivative_operator[None, :] * u_outer_product_hat,\n            axis=1,", new="            self.derivative_operator[:, None] * u_outer_product_hat,\n            axis=1,", props=["C03", "C08"]),
 "M16_repeat_offbyone": dict(file="exponax/_repeated_stepper.py", old="return repeat(self.stepper.step_fourier, self.num_sub_steps)(u_hat)", new="return repeat(self.stepper.step_fourier, max(self.num_sub_steps - 1, 1))(u_hat)", props=["C14"]),
 # ---- C01
 "M17_adv_sign_axis": dict(file="exponax/_spectral.py", old='    operator = jnp.einsum(\n        "i,i...->...",\n        velocity,\n        derivative_operator**order,\n    )', new='    operator = jnp.einsum(\n        "i,i...->...",\n        velocity.at[-1].multiply(-1.0) if velocity.shape[0] > 2 else velocity,\n        derivative_operator**order,\n    )', props=["C01"]),
 "M18_exp_half_dt": dict(file="exponax/etdrk/_base_etdrk.py", old="self._exp_term = jnp.exp(self.dt * linear_operator)", new="self._exp_term = jnp.exp(jnp.where(jnp.abs(self.dt * linear_operator) > 1e5, 0.5, 1.0) * self.dt * linear_operator)", props=["C01"]),
 "M19_hyper_mixed": dict(file="exponax/stepper/_hyper_diffusion.py", old="-self.hyper_diffusivity * laplace_operator * laplace_operator", new="-self.hyper_diffusivity * build_laplace_operator(derivative_operator, order=4)", props=["C01"]),
 "M20_wave_guard": dict(file="exponax/stepper/_wave.py", old="h_hat = w_hat / (1j * self.speed_of_sound * k_guard)", new="h_hat = w_hat / (1j * self.speed_of_sound * self.wavenumber_norm)", props=["C01"]),
 # ---- C02
 "M21_etdrk4_stage3": dict(file="exponax/etdrk/_etdrk_4.py", old="u_stage_3_hat = self._half_exp_term * u_stage_1_hat + self._coef_3 * (", new="u_stage_3_hat = self._half_exp_term * u_hat + self._coef_3 * (", props=["C02"]),
 "M22_etdrk4_factor2": dict(file="exponax/etdrk/_etdrk_4.py", old="+ self._coef_5 * 2 * (u_stage_1_nonlin_hat + u_stage_2_nonlin_hat)", new="+ self._coef_5 * (u_stage_1_nonlin_hat + u_stage_2_nonlin_hat)", props=["C02"]),
 "M23_etdrk2_lr3": dict(file="exponax/etdrk/_etdrk_2.py", old="c2 = ((exp_lr - 1 - lr) / lr**2)", new="c2 = ((exp_lr - 1 - lr) / lr**2) * jnp.where(jnp.abs(L_dt.imag) > 50.0, 1.01, 1.0)", props=["C02"]),
 "M24_order_dispatch": dict(file="exponax/_base_stepper.py", old="        elif order == 3:\n            self._integrator = ETDRK3(", new="        elif order == 3:\n            self._integrator = ETDRK2(", props=["C02"]),
 "M25_etdrk1_small_z": dict(file="exponax/etdrk/_etdrk_1.py", old="self._coef_1 = dt * mean_c1", new="self._coef_1 = dt * jnp.where(jnp.abs(L_dt) < 1e-6, 1.0 + L_dt, mean_c1)", props=["C02"]),
 # ---- C03
 "M26_conv_nc_scale_sign": dict(file="exponax/nonlin_fun/_convection.py", old="        conv_u = jnp.sum(u * nabla_u, axis=0, keepdims=True)", new="        conv_u = jnp.sum(u * nabla_u[::-1], axis=0, keepdims=True)", props=["C03"]),
 "M27_ch_square": dict(file="exponax/stepper/reaction/_cahn_hilliard.py", old="u_power = u[0] ** 3", new="u_power = u[0] ** 3 - 1e-3 * u[0] ** 2", props=["C03"]),
 "M28_dealias_after_only": dict(file="exponax/nonlin_fun/_base.py", old="        if self.dealiasing_mask is not None:\n            u_hat = self.dealiasing_mask * u_hat\n        return ifft(", new="        return ifft(", props=["C03"]),
 "M29_gn_meanfix": dict(file="exponax/nonlin_fun/_gradient_norm.py", old="        return f - jnp.mean(f)", new="        return f - jnp.mean(f) * (f.shape[-1] % 2)", props=["C03"]),
}
