"""Break tests: one-line changes to exponax that the monitors must (or, for equivalent ones, must not) flag.
name -> dict(file, old, new, props=[checks expected to fire], equivalent=bool)"""
M = {
 "M01_cross_sign": dict(file="exponax/nonlin_fun/_projected_convection.py", old="c2 = a[2] * b[0] - a[0] * b[2]", new="c2 = a[0] * b[2] - a[2] * b[0]", props=["C03", "C09"]),
 "M02_dealias_cutoff": dict(file="exponax/nonlin_fun/_base.py", old="cutoff=start_of_aliased_modes - 1,", new="cutoff=start_of_aliased_modes,", props=["C03"]),
 "M03_etdrk3_c4": dict(file="exponax/etdrk/_etdrk_3.py", old="c4 = ((4.0 * (2.0 + lr", new="c4 = ((2.0 * (2.0 + lr", props=["C02"]),
 "M04_dispersion_mix_sign": dict(file="exponax/stepper/_dispersion.py", old="linear_operator = advection_operator * laplace_operator", new="linear_operator = -advection_operator * laplace_operator", props=["C01"]),
 "M05_gradnorm_half": dict(file="exponax/nonlin_fun/_gradient_norm.py", old="u_gradient_norm_squared_hat = 0.5 * self.fft(u_gradient_norm_squared)", new="u_gradient_norm_squared_hat = self.fft(u_gradient_norm_squared)", props=["C03"]),
 "M06_vort_axis": dict(file="exponax/nonlin_fun/_vorticity_convection.py", old="v_hat = -self.derivative_operator[0:1] * stream_function_hat", new="v_hat = -self.derivative_operator[1:2] * stream_function_hat", props=["C03", "C08", "C09"]),
 "M07_injection_sign": dict(file="exponax/nonlin_fun/_vorticity_convection.py", old="            -derivative_operator[1:2].imag\n", new="            derivative_operator[1:2].imag\n", props=["C12"]),
 "M08_spectrum_bin_edge": dict(file="exponax/_spectral.py", old="mask = (wavenumbers_norm[0] >= lower_limit) & (\n            wavenumbers_norm[0] < upper_limit\n        )", new="mask = (wavenumbers_norm[0] > lower_limit) & (\n            wavenumbers_norm[0] <= upper_limit\n        )", props=["C17"], equivalent=True),
 "M09_interp_scaling": dict(file="exponax/_interpolation.py", old="                mode=\"reconstruction\",\n                indexing=indexing,", new="                mode=\"coef_extraction\",\n                indexing=indexing,", props=["C15"]),
 "M10_fourier_metric_scaling": dict(file="exponax/metrics/_fourier.py", old="        mode=\"reconstruction\",\n    )\n\n    scale = ", new="        mode=\"norm_compensation\",\n    )\n\n    scale = ", props=["C16"]),
 "M11_difficulty_formula": dict(file="exponax/stepper/generic/_utils.py", old="2 ** (j - 1)", new="2**j", props=["C13"]),
 "M12_wave_drift": dict(file="exponax/stepper/_wave.py", old="u_hat_next = u_hat_next.at[h_dc_idx].add(self.dt * u_hat[v_dc_idx])", new="u_hat_next = u_hat_next.at[h_dc_idx].add(0.5 * self.dt * u_hat[v_dc_idx])", props=["C01"]),
 "M13_leray_guard": dict(file="exponax/nonlin_fun/_leray.py", old="laplace_operator != 0, 1.0 / laplace_operator, 0.0", new="laplace_operator != 0, 1.0 / laplace_operator, 1.0", props=["C10", "C09"], equivalent=True),
 "M14_diffusion_offdiag": dict(file="exponax/stepper/_diffusion.py", old="\"ij,ij...->...\",\n            self.diffusivity,", new="\"ii,ii...->...\",\n            self.diffusivity,", props=["C01"]),
 "M15_conv_cons_axis": dict(file="exponax/nonlin_fun/_convection.py", old="            self.derivative_operator[None, :] * u_outer_product_hat,\n            axis=1,", new="            self.derivative_operator[:, None] * u_outer_product_hat,\n            axis=1,", props=["C03"]),
 "M16_repeat_offbyone": dict(file="exponax/_repeated_stepper.py", old="return repeat(self.stepper.step_fourier, self.num_sub_steps)(u_hat)", new="return repeat(self.stepper.step_fourier, max(self.num_sub_steps - 1, 1))(u_hat)", props=["C14"]),
 # ---- C01
 "M17_adv_sign_axis": dict(file="exponax/_spectral.py", old='    operator = jnp.einsum(\n        "i,i...->...",\n        velocity,\n        derivative_operator**order,\n    )', new='    operator = jnp.einsum(\n        "i,i...->...",\n        velocity.at[-1].multiply(-1.0) if velocity.shape[0] > 2 else velocity,\n        derivative_operator**order,\n    )', props=["C01"]),
 "M18_exp_half_dt": dict(file="exponax/etdrk/_base_etdrk.py", old="self._exp_term = jnp.exp(self.dt * linear_operator)", new="self._exp_term = jnp.exp(jnp.where(jnp.abs(self.dt * linear_operator) > 1e5, 0.5, 1.0) * self.dt * linear_operator)", props=["C01"]),
 "M19_hyper_mixed": dict(file="exponax/stepper/_hyper_diffusion.py", old="-self.hyper_diffusivity * laplace_operator * laplace_operator", new="-self.hyper_diffusivity * build_laplace_operator(derivative_operator, order=4)", props=["C01"]),
 "M20_wave_guard": dict(file="exponax/stepper/_wave.py", old="h_hat = w_hat / (1j * self.speed_of_sound * k_guard)", new="h_hat = w_hat / (1j * self.speed_of_sound * self.wavenumber_norm)", props=["C01"]),
 # ---- C02
 "M21_etdrk4_stage3": dict(file="exponax/etdrk/_etdrk_4.py", old="u_stage_3_hat = self._half_exp_term * u_stage_1_hat + self._coef_3 * (", new="u_stage_3_hat = self._half_exp_term * u_hat + self._coef_3 * (", props=["C02"]),
 "M22_etdrk4_factor2": dict(file="exponax/etdrk/_etdrk_4.py", old="+ self._coef_5 * 2 * (u_stage_1_nonlin_hat + u_stage_2_nonlin_hat)", new="+ self._coef_5 * (u_stage_1_nonlin_hat + u_stage_2_nonlin_hat)", props=["C02"]),
 "M23_etdrk2_lr3": dict(file="exponax/etdrk/_etdrk_2.py", old="c2 = ((exp_lr - 1 - lr) / lr**2)", new="c2 = ((exp_lr - 1 - lr) / lr**2) * jnp.where(jnp.abs(L_dt.imag) > 50.0, 1.01, 1.0)", props=["C02"]),
 "M24_order_dispatch": dict(file="exponax/_base_stepper.py", old="        elif order == 3:\n            self._integrator = ETDRK3(", new="        elif order == 3:\n            self._integrator = ETDRK2(", props=["C02"]),
 "M25_etdrk1_small_z": dict(file="exponax/etdrk/_etdrk_1.py", old="self._coef_1 = dt * mean_c1", new="self._coef_1 = dt * jnp.where(jnp.abs(L_dt) < 1e-6, 1.0 + L_dt, mean_c1)", props=["C02"]),
 # ---- C03
 "M26_conv_nc_scale_sign": dict(file="exponax/nonlin_fun/_convection.py", old="            u * nabla_u,\n            axis=0,", new="            u * nabla_u[::-1],\n            axis=0,", props=["C03"], equivalent=True),   # reversing the summed gradient components changes nothing
 "M27_ch_square": dict(file="exponax/stepper/reaction/_cahn_hilliard.py", old="u_power = u[0] ** 3", new="u_power = u[0] ** 3 - 1e-3 * u[0] ** 2", props=["C03"]),
 "M28_dealias_after_only": dict(file="exponax/nonlin_fun/_base.py", old="        if self.dealiasing_mask is not None:\n            u_hat = self.dealiasing_mask * u_hat\n        return ifft(", new="        return ifft(", props=["C03"]),
 "M29_gn_meanfix": dict(file="exponax/nonlin_fun/_gradient_norm.py", old="        return f - jnp.mean(f)", new="        return f - jnp.mean(f) * (f.shape[-1] % 2)", props=["C03"]),
 # ---- C04
 "M30_scaling_nyquist": dict(file="exponax/_spectral.py", old="            other_wavenumbers == -num_points // 2,", new="            other_wavenumbers == num_points // 2,", props=["C04"]),
 "M31_grid_endpoint": dict(file="exponax/_utils.py", old="grid_1d = jnp.linspace(0, domain_extent, num_points, endpoint=False)", new="grid_1d = jnp.linspace(0, domain_extent, num_points, endpoint=(num_spatial_dims == 3))", props=["C04"]),
 "M32_lowpass_strict": dict(file="exponax/_spectral.py", old="mask = jnp.linalg.norm(wavenumbers, axis=0) <= cutoff", new="mask = jnp.linalg.norm(wavenumbers, axis=0) < cutoff", props=["C04"]),
 "M33_modes_slices_odd": dict(file="exponax/_spectral.py", old="        left_slice = slice(None, nyquist_mode + 1)\n        right_slice = slice(-nyquist_mode, None)", new="        left_slice = slice(None, nyquist_mode)\n        right_slice = slice(-nyquist_mode, None)", props=["C04", "C15"]),
 "M34_wavenumber_leading_rfft": dict(file="exponax/_spectral.py", old="    other_wavenumbers = jnp.round(jnp.fft.fftfreq(num_points, 1 / num_points))\n\n    wavenumber_list", new="    other_wavenumbers = jnp.abs(jnp.round(jnp.fft.fftfreq(num_points, 1 / num_points)))\n\n    wavenumber_list", props=["C04", "C01", "C05"]),
 # ---- C05
 "M35_derivative_layout": dict(file="exponax/_spectral.py", old="        field_der_hat = field_hat[:, None] * derivative_operator_fixed[None, ...]", new="        field_der_hat = field_hat[None, :] * derivative_operator_fixed[:, None]", props=["C05"]),
 "M36_poisson_sign": dict(file="exponax/_poisson.py", old="        return -self._inv_operator * f_hat", new="        return -self._inv_operator * f_hat if self.num_spatial_dims < 3 else self._inv_operator * f_hat", props=["C05"]),
 "M37_poisson_mean": dict(file="exponax/_poisson.py", old="self._inv_operator = jnp.where(operator == 0, 0.0, 1 / operator)", new="self._inv_operator = jnp.where(operator == 0, 1.0, 1 / operator)", props=["C05"]),
 "M38_gip_order": dict(file="exponax/_spectral.py", old="        derivative_operator**order,\n    )\n\n    # Need to add singleton channel axis", new="        derivative_operator ** min(order, 3),\n    )\n\n    # Need to add singleton channel axis", props=["C05"]),
 # ---- C06
 "M39_value_branch": dict(file="exponax/stepper/_burgers.py", old="        self.diffusivity = diffusivity\n", new="        self.diffusivity = diffusivity if isinstance(diffusivity, float) else float(diffusivity)\n", props=["C06", "C07"]),
 "M40_cached_constant": dict(file="exponax/nonlin_fun/_polynomial.py", old="        u = self.ifft(u_hat)\n        u_power = 1.0", new="        u = self.ifft(u_hat)\n        if not hasattr(type(self), \"_first_shape\"):\n            type(self)._first_shape = u.shape\n        u = u if u.shape == type(self)._first_shape else u * 1.0000001\n        u_power = 1.0", props=["C03"]),   # state carried across calls at class level: every program shape of one case sees the same perturbation, so C06 is rightly silent; the oracle-based checks see it
 # ---- C07
 "M41_stop_gradient": dict(file="exponax/stepper/_kuramoto_sivashinsky.py", old="        ) - self.fourth_order_scale * build_laplace_operator(\n            derivative_operator, order=4\n        )\n        return linear_operator\n\n    def _build_nonlinear_fun(\n        self,\n        derivative_operator: Complex[Array, \"D ... (N//2)+1\"],\n    ) -> GradientNormNonlinearFun:", new="        ) - __import__(\"jax\").lax.stop_gradient(self.fourth_order_scale) * build_laplace_operator(\n            derivative_operator, order=4\n        )\n        return linear_operator\n\n    def _build_nonlinear_fun(\n        self,\n        derivative_operator: Complex[Array, \"D ... (N//2)+1\"],\n    ) -> GradientNormNonlinearFun:", props=["C07"]),
 "M42_wave_where_grad": dict(file="exponax/stepper/_wave.py", old="        h_hat = w_hat / (1j * self.speed_of_sound * k_guard)", new="        h_hat = jnp.where(self.wavenumber_norm == 0, 0.0, w_hat / (1j * self.speed_of_sound * self.wavenumber_norm))", props=["C07", "C01"]),
 # ---- C08
 "M43_mask_axis0": dict(file="exponax/_spectral.py", old="        for wn_grid in wavenumbers:\n            mask = mask & (jnp.abs(wn_grid) <= cutoff)", new="        for wn_grid in wavenumbers[: max(1, len(wavenumbers) - 1)] if len(wavenumbers) == 3 else wavenumbers:\n            mask = mask & (jnp.abs(wn_grid) <= cutoff)", props=["C08", "C03"]),
 "M44_burgers_channel": dict(file="exponax/nonlin_fun/_convection.py", old="            u[None, :] * nabla_u,\n            axis=1,", new="            u[None, :] * nabla_u * (1.0 if u.shape[0] < 3 else jnp.asarray([1.0, 1.0, 1.001]).reshape((1, 3) + (1,) * 3)),\n            axis=1,", props=["C08", "C03"]),
 # ---- C09
 "M45_ch_laplace": dict(file="exponax/stepper/reaction/_cahn_hilliard.py", old="        u_power_laplace_hat = self.laplace_operator * u_power_hat", new="        u_power_laplace_hat = (self.laplace_operator - 1e-3) * u_power_hat", props=["C09", "C03"]),
 "M46_etdrk4_weights": dict(file="exponax/etdrk/_etdrk_4.py", old="        self._coef_6 = dt * mean_c6", new="        self._coef_6 = dt * mean_c6 * 1.001", props=["C09", "C02"]),
 # ---- C10
 "M47_leray_sign": dict(file="exponax/nonlin_fun/_leray.py", old="        return u_hat + grad_pressure_hat", new="        return u_hat + grad_pressure_hat * (1.0 if self.num_spatial_dims == 3 else 0.999)", props=["C10"]),
 # ---- C11
 "M50_hyper_sign_mixed": dict(file="exponax/stepper/_hyper_diffusion.py", old="                -self.hyper_diffusivity * laplace_operator * laplace_operator", new="                self.hyper_diffusivity * laplace_operator * laplace_operator", props=["C11", "C01"]),
 "M51_wave_unnormal": dict(file="exponax/stepper/_wave.py", old="        pos = (1 / jnp.sqrt(2)) * (w_hat + v_hat)\n        neg = (1 / jnp.sqrt(2)) * (w_hat - v_hat)", new="        pos = (1 / 2) * (w_hat + v_hat)\n        neg = (1 / 2) * (w_hat - v_hat)", props=["C11", "C01"]),
 # ---- C12
 "M52_forcing_channel": dict(file="exponax/nonlin_fun/_projected_convection.py", old="        self.injection = jnp.concatenate([injection_single, zeros, zeros], axis=0)", new="        self.injection = jnp.concatenate([zeros, zeros, injection_single], axis=0)", props=["C12"]),
 "M53_forced_dt": dict(file="exponax/_forced_stepper.py", old="        u_hat_with_force = u_hat + self.stepper.dt * f_hat", new="        u_hat_with_force = u_hat + f_hat", props=["C12"]),
 # ---- C13
 "M54_normalize_power": dict(file="exponax/stepper/generic/_utils.py", old="        c * dt / (domain_extent**i) for i, c in enumerate(coefficients)", new="        c * dt / (domain_extent ** max(i - 1, 0) * domain_extent ** min(i, 1)) if i < 4 else c * dt / domain_extent ** (i - 1) for i, c in enumerate(coefficients)", props=["C13"]),
 "M55_gn_difficulty": dict(file="exponax/stepper/generic/_utils.py", old="        normalized_gradient_norm_scale\n        * maximum_absolute\n        * num_points**2\n        * num_spatial_dims", new="        normalized_gradient_norm_scale\n        * maximum_absolute\n        * num_points\n        * num_spatial_dims", props=["C13"]),
 "M56_ks_sign": dict(file="exponax/stepper/_kuramoto_sivashinsky.py", old="            scale=self.gradient_norm_scale,\n        )\n\n\nclass KuramotoSivashinskyConservative", new="            scale=abs(self.gradient_norm_scale),\n        )\n\n\nclass KuramotoSivashinskyConservative", props=["C13"]),
 # ---- C14
 "M57_rollout_emit_prev": dict(file="exponax/_utils.py", old="        def scan_fn(u, aux):\n            u_next = stepper_fn(u, aux)\n            return u_next, u_next\n\n        def rollout_stepper_fn(u_0, aux):", new="        def scan_fn(u, aux):\n            u_next = stepper_fn(u, aux)\n            return u_next, u\n\n        def rollout_stepper_fn(u_0, aux):", props=["C14"]),
 "M58_substack_slice": dict(file="exponax/_utils.py", old="    n_sub_trjs = n_time_steps - sub_len + 1", new="    n_sub_trjs = max(n_time_steps - sub_len, 1)", props=["C14"]),
 "M59_constant_aux_roll": dict(file="exponax/_utils.py", old="            final, _ = jax.lax.scan(scan_fn, u_0, aux, length=n)\n            return final", new="            final, _ = jax.lax.scan(scan_fn, u_0, aux, length=n, reverse=not constant_aux)\n            return final", props=["C14"]),
 # ---- C15
 "M60_map_rescale": dict(file="exponax/_interpolation.py", old="    if (old_num_points > new_num_points) and (new_num_points % 2 == 0) and oddball_zero:", new="    if (old_num_points > new_num_points) and (new_num_points % 2 == 1) and oddball_zero:", props=["C15"], equivalent=True),   # only touches content AT the new Nyquist mode: outside what C15 states (resolved polynomials, mean)
 # ---- C16
 "M61_spatial_scale": dict(file="exponax/metrics/_spatial.py", old="    scale = (domain_extent / num_points) ** num_spatial_dims", new="    scale = (domain_extent / num_points) ** min(num_spatial_dims, 2)", props=["C16"]),
 "M62_band_mask": dict(file="exponax/metrics/_fourier.py", old="            cutoff=low - 1,  # Need to subtract 1 because the cutoff is inclusive", new="            cutoff=low,", props=["C16"]),
 "M63_corr_mean": dict(file="exponax/metrics/_correlation.py", old="    correlation = jnp.mean(channel_wise_correlation)", new="    correlation = jnp.sum(channel_wise_correlation) / max(channel_wise_correlation.shape[0] - 1, 1)", props=["C16"]),
 # ---- C17
 "M64_bin_floor": dict(file="exponax/_spectral.py", old="        lower_limit = k - dk / 2\n        upper_limit = k + dk / 2", new="        lower_limit = k\n        upper_limit = k + dk", props=["C17"]),
 "M65_power_recon": dict(file="exponax/_spectral.py", old="        quantity = 0.5 * magnitude * magnitude_norm_compensated", new="        quantity = 0.5 * magnitude * magnitude", props=["C17"]),
 # ---- C18
 "M66_std_before_mean": dict(file="exponax/ic/_base_ic.py", old="    if zero_mean:\n        ic = ic - jnp.mean(ic)\n    if std_one:\n        ic = ic / jnp.std(ic)", new="    if std_one:\n        ic = ic / jnp.sqrt(jnp.mean(ic**2))\n    if zero_mean:\n        ic = ic - jnp.mean(ic)", props=["C18"]),
 "M67_key_reuse": dict(file="exponax/ic/_multi_channel.py", old="                jax.random.split(key, len(self.ic_generators)),\n                strict=False,\n            )\n        ]\n        return jnp.concatenate(u_list, axis=0)", new="                [key] * len(self.ic_generators),\n                strict=False,\n            )\n        ]\n        return jnp.concatenate(u_list, axis=0)", props=["C18"]),
 "M68_grf_exponent": dict(file="exponax/ic/_gaussian_random_field.py", old="wavenumber_norm_grid, -self.powerlaw_exponent / 2.0", new="wavenumber_norm_grid, -self.powerlaw_exponent / (2.0 if self.num_spatial_dims < 3 else 3.0)", props=["C18"]),
 # ---- C19
 "M69_f32_hotpath": dict(file="exponax/etdrk/_etdrk_2.py", old="        u_nonlin_hat = self._nonlinear_fun(u_hat)\n        u_stage_1_hat = self._exp_term * u_hat + self._coef_1 * u_nonlin_hat", new="        u_nonlin_hat = self._nonlinear_fun(u_hat).astype(jnp.complex64)\n        u_stage_1_hat = self._exp_term * u_hat + self._coef_1 * u_nonlin_hat", props=["C19", "C02"]),
 "M70_closed_form_small_z": dict(file="exponax/etdrk/_etdrk_1.py", old="        self._coef_1 = dt * mean_c1", new="        self._coef_1 = dt * jnp.where(jnp.abs(L_dt) > 1e8, (jnp.exp(L_dt) - 1) / jnp.where(L_dt == 0, 1.0, L_dt) * jnp.abs(L_dt) / jnp.abs(L_dt), mean_c1)", props=["C19"], equivalent=True),
 "M71_exp_overflow": dict(file="exponax/etdrk/_etdrk_3.py", old="        self._half_exp_term = jnp.exp(0.5 * dt * linear_operator)", new="        self._half_exp_term = jnp.exp(dt * linear_operator) / jnp.exp(0.5 * dt * linear_operator)", props=["C19", "C02"]),
 # ---- C20
 "M72_shape_check_lt": dict(file="exponax/_base_stepper.py", old="        if u.shape != expected_shape:", new="        if u.ndim != len(expected_shape) or any(a < b for a, b in zip(u.shape, expected_shape)):", props=["C20"]),
 "M73_repeated_no_check": dict(file="exponax/_repeated_stepper.py", old="        if u.shape != expected_shape:", new="        if u.shape[1:] != expected_shape[1:]:", props=["C20", "C14"]),
 "M74_dim_guard": dict(file="exponax/nonlin_fun/_vorticity_convection.py", old="        if num_spatial_dims != 2:", new="        if num_spatial_dims < 2:", props=["C20"]),
 "M75_warn_instead": dict(file="exponax/_spectral.py", old="    if order % 2 != 1:\n        raise ValueError(\"Order must be odd.\")", new="    if order % 2 != 1:\n        import warnings\n\n        warnings.warn(\"Order must be odd.\", stacklevel=2)", props=["C20"]),
}
