#!/bin/bash
# usage: selftest/before_after.sh <old-verif-commit> <seed-id>:<PROP> ...
# Runs the quick check of an OLDER version of /verif (a git worktree under /tmp) against seeded changes, to document which changes were missed before a strengthening.
OLD=$1; shift
W=/tmp/verif_old_$OLD
[ -d $W ] || git -C /verif worktree add --detach -q $W $OLD
for pair in "$@"; do
  id=${pair%%:*}; P=${pair##*:}
  T=$(mktemp -d /tmp/seedold.XXXX); rmdir $T
  git -C /repo worktree add --detach -q $T HEAD
  git -C $T apply /verif/seeded/$id/patch.diff
  out=$(cd $W && VERIF_REPO=$T ./check $P --tier quick --no-evidence 2>&1); rc=$?
  echo "$id $P old=$OLD rc=$rc $(echo "$out" | grep -E '^(VIOLATION|HELD|INCONCLUSIVE)' | head -1 | cut -c1-80)"
  git -C /repo worktree remove --force $T; rm -rf $T
done
git -C /verif worktree remove --force $W
