#!/bin/bash
# wave 2: selftest/process_seeds2.sh C01 C02 ...  -> ids <P>-2A / <P>-2B from /tmp/seed2_<P>_out/{A,B}
cd /verif
for P in "$@"; do
  for X in A B; do
    src=/tmp/seed2_${P}_out/$X
    [ -f $src/patch.diff ] && [ -f $src/demo.py ] && [ -f $src/meta.json ] || { echo "$P-2$X incomplete"; continue; }
    id=${P}-2${X}
    echo "== $id intake"; python3 selftest/seeded.py intake $src $id $P --tests
    echo "== $id check";  python3 selftest/seeded.py check $id
  done
done
