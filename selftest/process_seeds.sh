#!/bin/bash
# usage: selftest/process_seeds.sh C04 C02 ...   -> intake (with test-suite) + quick check of the target property for A and B of each
cd /verif
for P in "$@"; do
  for X in A B; do
    src=/tmp/seed_${P}_out/$X
    [ -f $src/patch.diff ] && [ -f $src/demo.py ] && [ -f $src/meta.json ] || { echo "$P-$X incomplete"; continue; }
    id=${P}-${X}
    echo "== $id intake"; python3 selftest/seeded.py intake $src $id $P --tests
    echo "== $id check";  python3 selftest/seeded.py check $id
  done
done
