import jax; jax.config.update("jax_enable_x64", True)
import jax.numpy as jnp, numpy as np, itertools, math
import exponax as ex
from exponax import nonlin_fun as nf
rng=np.random.default_rng(0)
def kgrid(D,N):
    return np.meshgrid(*[np.fft.fftfreq(N,1/N)]*D,indexing="ij")
def full_fft(u,D): return np.fft.fftn(u,axes=tuple(range(-D,0)))
def full_ifft(uh,D): return np.fft.ifftn(uh,axes=tuple(range(-D,0)))
def band_mask(D,N,K):
    ks=kgrid(D,N); m=np.ones((N,)*D,bool)
    for k in ks: m&=(np.abs(k)<=K)
    return m
def upsample(uh,D,N,M):
    # uh: (..., N^D) full spectrum, band-limited below Nyquist. returns spectrum on M grid (scaled for ifftn on M)
    out=np.zeros(uh.shape[:-D]+(M,)*D,complex)
    idx=[np.fft.fftfreq(N,1/N).astype(int)%M]*D
    out[(Ellipsis,)+np.ix_(*idx)]=uh
    return out*(M/N)**D
def downsample(vh,D,N,M):
    idx=[np.fft.fftfreq(N,1/N).astype(int)%M]*D
    return vh[(Ellipsis,)+np.ix_(*idx)]*(N/M)**D
def oracle(op,u,D,N,L,K):
    M=4*N
    uh=full_fft(u,D)*band_mask(D,N,K)
    Uh=upsample(uh,D,N,M)
    ks=[(2*np.pi/L)*k for k in kgrid(D,M)]
    def d(fh,axis,order=1): return fh*(1j*ks[axis])**order
    res=op(Uh,lambda fh: np.real(full_ifft(fh,D)), lambda f: full_fft(f,D), d, ks)   # returns physical or spectral? spectral on M
    r=downsample(res,D,N,M)*band_mask(D,N,K)
    return r  # full spectrum on N grid
def to_full_from_rfft(rh,D,N):
    # rfft layout -> full via irfftn then fftn
    u=np.fft.irfftn(rh,s=(N,)*D,axes=tuple(range(-D,0)))
    return full_fft(u,D)
def run(name,fun,op,C,D,N,L,frac):
    K=math.floor(frac*(N//2)-1+1e-9)
    u=rng.normal(size=(C,)+(N,)*D)
    uh=jnp.asarray(np.fft.rfftn(u,axes=tuple(range(-D,0))))
    got=to_full_from_rfft(np.asarray(fun(uh)),D,N)
    ref=oracle(op,u,D,N,L,K)
    sc=max(np.abs(ref).max(),1e-300)
    return np.abs(got-ref).max()/sc
worst={}
for D in [1,2,3]:
  Ns = range(6,30) if D==1 else (range(6,19) if D==2 else range(6,13))
  for N in Ns:
    L=rng.uniform(0.5,7)
    Dop=ex.spectral.build_derivative_operator(D,L,N)
    cases={}
    b=1.7
    # conv multi-channel nonconservative: -b u.grad u
    def op_conv_nc(Uh,iF,F,d,ks):
        U=iF(Uh); out=[]
        for c in range(D):
            out.append(-b*sum(U[j]*iF(d(Uh[c],j)) for j in range(D)))
        return F(np.stack(out))
    def op_conv_c(Uh,iF,F,d,ks):
        U=iF(Uh); out=[]
        for c in range(D):
            out.append(-b*0.5*sum(d(F(U[c]*U[j]),j) for j in range(D)))
        return np.stack(out)
    def op_conv_sc_c(Uh,iF,F,d,ks):
        U=iF(Uh); return -b*0.5*sum(d(F(U*U),j) for j in range(D))
    def op_conv_sc_nc(Uh,iF,F,d,ks):
        U=iF(Uh); return F(-b*U*sum(iF(d(Uh,j)) for j in range(D)))
    def op_gn(Uh,iF,F,d,ks):
        g=sum(iF(d(Uh,j))**2 for j in range(D)); g=g-g.mean(axis=tuple(range(-D,0)),keepdims=True); return F(-b*0.5*g)
    def op_gn_nofix(Uh,iF,F,d,ks):
        g=sum(iF(d(Uh,j))**2 for j in range(D)); return F(-b*0.5*g)
    coefs=(0.3,-0.2,0.5,0.0)
    def op_poly2(Uh,iF,F,d,ks):
        U=iF(Uh); return F(0.3-0.2*U+0.5*U**2)
    def op_poly3(Uh,iF,F,d,ks):
        U=iF(Uh); return F(0.3-0.2*U+0.5*U**2-0.7*U**3)
    sl=(0.4,-1.1,0.6)
    def op_gen(Uh,iF,F,d,ks):
        U=iF(Uh); g=sum(iF(d(Uh,j))**2 for j in range(D)); g=g-g.mean(axis=tuple(range(-D,0)),keepdims=True)
        return F(sl[0]*U**2)+sl[1]*0.5*sum(d(F(U*U),j) for j in range(D))+F(sl[2]*0.5*g)
    cases["conv_mc_nc"]=(nf.ConvectionNonlinearFun(D,N,derivative_operator=Dop,scale=b),op_conv_nc,D,2/3)
    cases["conv_mc_c"]=(nf.ConvectionNonlinearFun(D,N,derivative_operator=Dop,scale=b,conservative=True),op_conv_c,D,2/3)
    cases["conv_sc_c"]=(nf.ConvectionNonlinearFun(D,N,derivative_operator=Dop,scale=b,conservative=True,single_channel=True),op_conv_sc_c,1,2/3)
    cases["conv_sc_nc"]=(nf.ConvectionNonlinearFun(D,N,derivative_operator=Dop,scale=b,single_channel=True),op_conv_sc_nc,1,2/3)
    cases["gradnorm"]=(nf.GradientNormNonlinearFun(D,N,derivative_operator=Dop,dealiasing_fraction=2/3,scale=b),op_gn,1,2/3)
    cases["gradnorm_nofix"]=(nf.GradientNormNonlinearFun(D,N,derivative_operator=Dop,dealiasing_fraction=2/3,scale=b,zero_mode_fix=False),op_gn_nofix,1,2/3)
    cases["poly2"]=(nf.PolynomialNonlinearFun(D,N,dealiasing_fraction=2/3,coefficients=(0.3,-0.2,0.5)),op_poly2,1,2/3)
    cases["poly3"]=(nf.PolynomialNonlinearFun(D,N,dealiasing_fraction=1/2,coefficients=(0.3,-0.2,0.5,-0.7)),op_poly3,1,1/2)
    cases["general"]=(nf.GeneralNonlinearFun(D,N,derivative_operator=Dop,dealiasing_fraction=2/3,scale_list=sl),op_gen,1,2/3)
    if D==2:
        def op_vort(Uh,iF,F,d,ks):
            k2=-(ks[0]**2+ks[1]**2); inv=np.where(k2==0,0,1/np.where(k2==0,1,k2))
            psi=inv*Uh
            ux=iF(d(psi,1)); uy=-iF(d(psi,0))
            return F(-b*(ux*iF(d(Uh,0))+uy*iF(d(Uh,1))))
        cases["vort"]=(nf.VorticityConvection2d(D,N,convection_scale=b,derivative_operator=Dop,dealiasing_fraction=2/3),op_vort,1,2/3)
    if D==3:
        def op_proj(Uh,iF,F,d,ks):
            U=iF(Uh)
            W=np.stack([iF(d(Uh[2],1)-d(Uh[1],2)), iF(d(Uh[0],2)-d(Uh[2],0)), iF(d(Uh[1],0)-d(Uh[0],1))])
            Cx=np.cross(U,W,axis=0)
            return F(Cx)   # projection applied after truncation below
        cases["proj3d_unprojected"]=(None,op_proj,3,2/3)
    # reaction
    from exponax.stepper.reaction._cahn_hilliard import CahnHilliardNonlinearFun
    from exponax.stepper.reaction._gray_scott import GrayScottNonlinearFun
    def op_ch(Uh,iF,F,d,ks):
        U=iF(Uh); return 0.9*sum(d(F(U**3),j,2) for j in range(D))
    cases["cahn_hilliard"]=(CahnHilliardNonlinearFun(D,N,derivative_operator=Dop,scale=0.9,dealiasing_fraction=1/2),op_ch,1,1/2)
    f_,k_=0.04,0.06
    def op_gs(Uh,iF,F,d,ks):
        U=iF(Uh); return F(np.stack([f_*(1-U[0])-U[0]*U[1]**2, -(f_+k_)*U[1]+U[0]*U[1]**2]))
    cases["gray_scott"]=(GrayScottNonlinearFun(D,N,dealiasing_fraction=1/2,feed_rate=f_,kill_rate=k_),op_gs,2,1/2)
    for name,(fun,op,C,frac) in cases.items():
        if fun is None: continue
        try:
            e=run(name,fun,op,C,D,N,L,frac)
        except Exception as ex_:
            print("ERR",name,D,N,type(ex_).__name__,str(ex_)[:100]); continue
        key=(name,D)
        if e>worst.get(key,(0,None))[0]: worst[key]=(e,N)
for k,v in sorted(worst.items()): print(k,"%.2e"%v[0],"at N=",v[1])
