import jax; jax.config.update("jax_enable_x64", True)
import jax.numpy as jnp, numpy as np, itertools
import exponax as ex
rng=np.random.default_rng(0)
def modes(D,N):
    # all stored modes of rfft layout as integer vectors
    w=np.asarray(ex.spectral.build_wavenumbers(D,N)).astype(int)
    return w.reshape(D,-1).T
def symbol_multiplier(st, D, N):
    ones = jnp.ones((st.num_channels,)+ex.spectral.wavenumber_shape(D,N), dtype=complex)
    return np.asarray(st.step_fourier(ones))
worst={}
for D in [1,2,3]:
  for N in ([5,8] if D<3 else [5,6]):
    for L in [1.0, 7.3]:
      for dt in [0.1, 1e4, -0.3]:
        kk = (2*np.pi/L)*np.asarray(ex.spectral.build_wavenumbers(D,N))  # (D,...)
        ik = 1j*kk
        nyq = np.zeros(kk.shape[1:],bool)
        if N%2==0:
            nyq = np.any(np.abs(np.asarray(ex.spectral.build_wavenumbers(D,N)))==N//2,axis=0)
        c = rng.normal(size=D); A = rng.normal(size=(D,D)); A=A@A.T+0.1*np.eye(D); nu=abs(rng.normal())+0.1
        cases = {
         "adv_scalar": (ex.stepper.Advection(D,L,N,dt,velocity=0.7), -0.7*ik.sum(0)),
         "adv_vec": (ex.stepper.Advection(D,L,N,dt,velocity=jnp.asarray(c)), -(c.reshape((D,)+(1,)*D)*ik).sum(0)),
         "diff_scalar": (ex.stepper.Diffusion(D,L,N,dt,diffusivity=nu), nu*(ik**2).sum(0)),
         "diff_vec": (ex.stepper.Diffusion(D,L,N,dt,diffusivity=jnp.asarray(np.abs(c)+0.1)), ((np.abs(c)+0.1).reshape((D,)+(1,)*D)*ik**2).sum(0)),
         "diff_mat": (ex.stepper.Diffusion(D,L,N,dt,diffusivity=jnp.asarray(A)), np.einsum("ij,i...,j...->...",A,ik,ik)),
         "advdiff": (ex.stepper.AdvectionDiffusion(D,L,N,dt,velocity=jnp.asarray(c),diffusivity=jnp.asarray(A)), -(c.reshape((D,)+(1,)*D)*ik).sum(0)+np.einsum("ij,i...,j...->...",A,ik,ik)),
         "disp": (ex.stepper.Dispersion(D,L,N,dt,dispersivity=jnp.asarray(c)), (c.reshape((D,)+(1,)*D)*ik**3).sum(0)),
         "disp_mix": (ex.stepper.Dispersion(D,L,N,dt,dispersivity=jnp.asarray(c),advect_on_diffusion=True), (c.reshape((D,)+(1,)*D)*ik).sum(0)*(ik**2).sum(0)),
         "hyp": (ex.stepper.HyperDiffusion(D,L,N,dt,hyper_diffusivity=nu*1e-2), -nu*1e-2*(ik**4).sum(0)),
         "hyp_mix": (ex.stepper.HyperDiffusion(D,L,N,dt,hyper_diffusivity=nu*1e-2,diffuse_on_diffuse=True), -nu*1e-2*((ik**2).sum(0))**2),
         "gen": (ex.stepper.generic.GeneralLinearStepper(D,L,N,dt,linear_coefficients=(0.1,-0.3,0.02,0.004,-0.001)), sum(a*(ik**j).sum(0) for j,a in enumerate((0.1,-0.3,0.02,0.004,-0.001)))),
        }
        for name,(st,sym) in cases.items():
            mult = symbol_multiplier(st,D,N)[0]
            with np.errstate(over="ignore"):
                ref = np.exp(dt*sym)
            ok = ~nyq & np.isfinite(ref) & (np.abs(ref)<1e100) & (np.abs(ref)>1e-100)
            if ok.sum()==0: print('empty',name,D,N,L,dt); continue
            err = np.abs(mult-ref)[ok]/np.abs(ref)[ok]
            scale = np.maximum(1, np.abs(dt*sym)[ok])
            e = float((err/scale).max())
            worst[name]=max(worst.get(name,0),e)
print({k:"%.1e"%v for k,v in worst.items()})
