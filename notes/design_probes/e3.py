import jax; jax.config.update("jax_enable_x64", True)
import jax.numpy as jnp, numpy as np
import exponax as ex
# C04 xy
for D in [1,2,3]:
    for N in [4,5]:
        wi = ex.spectral.build_wavenumbers(D,N); wx = ex.spectral.build_wavenumbers(D,N,indexing="xy")
        si = ex.spectral.build_scaling_array(D,N,mode="coef_extraction"); sx = ex.spectral.build_scaling_array(D,N,mode="coef_extraction",indexing="xy")
        gi = ex.make_grid(D,1.0,N); gx = ex.make_grid(D,1.0,N,indexing="xy")
        u = jnp.zeros((1,)+(N,)*D)
        print(D,N,"wn ij",wi.shape,"xy",wx.shape,"scal",si.shape,sx.shape,"grid",gi.shape,gx.shape,"rfft",ex.fft(u).shape)
# derivative with xy in 2D
N=6; L=2.0
g = ex.make_grid(2,L,N,indexing="xy")
u = jnp.sin(2*jnp.pi*g[0:1]/L)  # varies along x
try:
    d = ex.derivative(u, L, indexing="xy")
    print("deriv xy shape", d.shape)
    print(np.abs(np.asarray(d[0] - (2*np.pi/L)*jnp.cos(2*jnp.pi*g[0]/L))).max(), np.abs(np.asarray(d[1])).max())
except Exception as e:
    print("deriv xy error", type(e).__name__, str(e)[:200])
try:
    c = ex.spectral.get_fourier_coefficients(u, indexing="xy"); print("coef xy", c.shape)
except Exception as e:
    print("coef xy error", type(e).__name__, str(e)[:200])
try:
    fi = ex.FourierInterpolator(u, domain_extent=L, indexing="xy"); print("interp", fi(jnp.array([0.3,0.4])), np.sin(2*np.pi*0.3/L))
except Exception as e:
    print("interp xy error", type(e).__name__, str(e)[:200])
try:
    v = jnp.concatenate([u, u], axis=0)
    m = ex.spectral.make_incompressible(v, indexing="xy"); print("incomp", m.shape)
except Exception as e:
    print("incomp xy error", type(e).__name__, str(e)[:200])
