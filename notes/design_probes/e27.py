import sys; sys.path.insert(0,"/tmp/explore/deps")
import jax; jax.config.update("jax_enable_x64", True)
import jax.numpy as jnp, numpy as np, io, contextlib
import exponax as ex
print(ex.__file__)
def phi_funcs(z):
    # float64 stable evaluation: series for small |z|, closed form otherwise (complex128)
    z=np.asarray(z,dtype=complex)
    small=np.abs(z)<0.5
    zs=np.where(small,z,1.0)
    def series(c0,shift):
        # sum_{n>=0} z^n/(n+shift)! * c(n) handled per function below
        pass
    from math import factorial as F
    n=np.arange(0,30)
    def ser(coefs):  # coefs[n] multiplies z^n
        out=np.zeros_like(z)
        for k,c in enumerate(coefs): out=out+c*zs**k
        return out
    p1_s=ser([1/F(k+1) for k in n]); p2_s=ser([1/F(k+2) for k in n]); p3_s=ser([1/F(k+3) for k in n])
    zl=np.where(small,1.0,z)
    e=np.exp(zl)
    p1_l=(e-1)/zl; p2_l=(e-1-zl)/zl**2; p3_l=(e-1-zl-zl**2/2)/zl**3
    p1=np.where(small,p1_s,p1_l); p2=np.where(small,p2_s,p2_l); p3=np.where(small,p3_s,p3_l)
    return p1,p2,p3
def ref_step(order, dt, L, N, u):
    z=dt*L; E=np.exp(z); E2=np.exp(z/2)
    p1,p2,p3=phi_funcs(z); p1h,_,_=phi_funcs(z/2)
    if order==0: return E*u
    Nu=N(u)
    if order==1: return E*u+dt*p1*Nu
    if order==2:
        a=E*u+dt*p1*Nu
        return a+dt*p2*(N(a)-Nu)
    # CM coefficients in phi form: f1=phi1-3phi2+4phi3, f2=2phi2-4phi3 (per N(a)+N(b) each), f3=4phi3-phi2
    f1=p1-3*p2+4*p3; f2=2*p2-4*p3; f3=4*p3-p2
    if order==3:
        a=E2*u+dt*0.5*p1h*Nu
        b=E*u+dt*p1*(2*N(a)-Nu)
        return E*u+dt*(f1*Nu+2*f2*N(a)+f3*N(b))
    if order==4:
        a=E2*u+dt*0.5*p1h*Nu
        Na=N(a)
        b=E2*u+dt*0.5*p1h*Na
        Nb=N(b)
        c=E2*a+dt*0.5*p1h*(2*Nb-Nu)
        return E*u+dt*(f1*Nu+f2*(Na+Nb)+f3*N(c))
rng=np.random.default_rng(0)
def run(name,st):
    integ=st._integrator
    D=st.num_spatial_dims; Nn=st.num_points
    u=jnp.asarray(0.3*rng.normal(size=(st.num_channels,)+(Nn,)*D)); uh=np.asarray(ex.fft(u))
    Dop=ex.spectral.build_derivative_operator(D,st.domain_extent,Nn)
    L=np.asarray(st._build_linear_operator(Dop))
    nf=getattr(integ,"_nonlinear_fun",None)
    Nf=(lambda v: np.asarray(nf(jnp.asarray(v)))) if nf is not None else (lambda v: 0*v)
    order={"ETDRK0":0,"ETDRK1":1,"ETDRK2":2,"ETDRK3":3,"ETDRK4":4}[type(integ).__name__]
    ref=ref_step(order,st.dt,L,Nf,uh); got=np.asarray(st.step_fourier(jnp.asarray(uh)))
    print("%-14s order %d  err %.2e"%(name,order,np.abs(got-ref).max()/np.abs(uh).max()))
for order in [1,2,3,4]:
    with contextlib.redirect_stdout(io.StringIO()):
        sts={"KdV1d":ex.stepper.KortewegDeVries(1,5.0,24,0.01,order=order),"Burgers2d":ex.stepper.Burgers(2,3.0,12,0.02,order=order),
         "KS1d":ex.stepper.KuramotoSivashinsky(1,30.0,32,0.1,order=order),"NS3":ex.stepper.NavierStokesVelocity(3,2.0,8,0.02,order=order),
         "GrayScott":ex.stepper.reaction.GrayScott(2,2.0,10,0.5,order=order),"Fisher":ex.stepper.reaction.FisherKPP(1,1.0,16,0.1,order=order),
         "GenConvOdd":ex.stepper.generic.GeneralConvectionStepper(2,3.0,10,0.02,linear_coefficients=(0.0,-0.4,0.02,0.003),order=order)}
    for k,v in sts.items(): run(k,v)
