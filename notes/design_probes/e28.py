import jax; jax.config.update("jax_enable_x64", True)
import jax.numpy as jnp, numpy as np, io, contextlib
import exponax as ex
rng=np.random.default_rng(0)
S=ex.stepper; R=S.reaction
# (5) laminar exactness for every order/dt (fixed scratch)
for order in [1,2,3,4]:
  for dt in [0.001,0.5,20.0]:
    L=3.0;N=12;k=2;gamma=0.7;nu=0.05;drag=-0.1;n=7
    st=S.KolmogorovFlowVorticity(2,L,N,dt,diffusivity=nu,drag=drag,injection_mode=k,injection_scale=gamma,order=order)
    u=ex.repeat(st,n)(jnp.zeros((1,N,N))); g=np.arange(N)*L/N
    kk=2*np.pi*k/L; sig=drag-nu*kk**2; ref=-kk*gamma*(np.exp(sig*n*dt)-1)/sig*np.cos(kk*g)[None,None,:]*np.ones((1,N,1))
    e2=np.abs(np.asarray(u)-ref).max()/np.abs(ref).max()
    st3=S.KolmogorovFlowVelocity(3,L,8,dt,diffusivity=nu,drag=drag,injection_mode=1,injection_scale=gamma,order=order)
    u3=ex.repeat(st3,n)(jnp.zeros((3,8,8,8))); g3=np.arange(8)*L/8; kk=2*np.pi/L; sig=drag-nu*kk**2
    ref3=np.zeros((3,8,8,8)); ref3[0]=gamma*(np.exp(sig*n*dt)-1)/sig*np.sin(kk*g3)[None,:,None]
    e3=np.abs(np.asarray(u3)-ref3).max()/np.abs(ref3).max()
    print("laminar order",order,"dt",dt,"2D err %.1e 3D err %.1e"%(e2,e3))
# (6) fixed points
with contextlib.redirect_stdout(io.StringIO()):
  cases=[("Fisher1",lambda o:R.FisherKPP(2,1.0,8,0.5,order=o,reactivity=2.0),[1.0]),("Fisher0",lambda o:R.FisherKPP(2,1.0,8,0.5,order=o),[0.0]),
   ("AllenCahn",lambda o:R.AllenCahn(1,1.0,12,0.3,order=o,first_order_coefficient=1.5,third_order_coefficient=-0.7),[np.sqrt(1.5/0.7)]),
   ("SwiftH",lambda o:R.SwiftHohenberg(2,10.0,8,0.2,order=o),[ (1+np.sqrt(1+4*(0.7-1.0)))/2 ]),
   ("GrayScott",lambda o:R.GrayScott(1,1.0,12,1.0,order=o),[1.0,0.0]),
   ("Burgers",lambda o:S.Burgers(2,1.0,8,0.1,order=o),[0.3,-1.2]),("KS",lambda o:S.KuramotoSivashinsky(2,10.0,8,0.1,order=o),[0.7]),
   ("CahnH",lambda o:R.CahnHilliard(2,1.0,8,0.1,order=o),[0.4]),("NS2",lambda o:S.NavierStokesVorticity(2,1.0,8,0.1,order=o),[0.9]),("NS3",lambda o:S.NavierStokesVelocity(3,1.0,6,0.1,order=o),[0.9,-0.3,0.2])]
  out=[]
  for name,mk,vals in cases:
    for o in [1,2,3,4]:
        st=mk(o); u=jnp.stack([v*jnp.ones((st.num_points,)*st.num_spatial_dims) for v in vals])
        v=u
        for _ in range(5): v=st(v)
        out.append((name,o,float(jnp.abs(v-u).max())))
print("fixed points worst:",max(out,key=lambda t:t[2]))
# (7) jvp vs Richardson FD
def fd(f,x,t,h):
    d1=(f(x+h*t)-f(x-h*t))/(2*h); d2=(f(x+2*h*t)-f(x-2*h*t))/(4*h); return (4*d1-d2)/3, float(jnp.abs(d1-d2).max())
st=S.KortewegDeVries(1,5.0,24,0.01,order=4); u=jnp.asarray(0.3*rng.normal(size=(1,24))); t=jnp.asarray(rng.normal(size=(1,24)))
j=jax.jvp(st,(u,),(t,))[1]; f,disc=fd(st,u,t,1e-4); print("KdV jvp vs FD %.2e (disc %.1e)"%(float(jnp.abs(j-f).max()/jnp.abs(j).max()),disc))
mk=lambda nu: S.Burgers(2,3.0,10,0.05,diffusivity=nu,order=3); u2=jnp.asarray(0.3*rng.normal(size=(2,10,10)))
j=jax.jvp(lambda nu: mk(nu)(u2),(0.1,),(1.0,))[1]; f,disc=fd(lambda nu: mk(nu)(u2),0.1,1.0,1e-4); print("Burgers d/dnu vs FD %.2e"%float(jnp.abs(j-f).max()/jnp.abs(j).max()))
j=jax.jvp(lambda dt: S.Burgers(2,3.0,10,dt,order=3)(u2),(0.05,),(1.0,))[1]; f,disc=fd(lambda dt: S.Burgers(2,3.0,10,dt,order=3)(u2),0.05,1.0,1e-4); print("Burgers d/ddt vs FD %.2e"%float(jnp.abs(j-f).max()/jnp.abs(j).max()))
ct=jnp.asarray(rng.normal(size=(2,10,10))); tt=jnp.asarray(rng.normal(size=(2,10,10))); stb=mk(0.1)
_,vjp=jax.vjp(stb,u2); lhs=float(jnp.sum(vjp(ct)[0]*tt)); rhs=float(jnp.sum(ct*jax.jvp(stb,(u2,),(tt,))[1])); print("adjoint identity rel %.1e"%(abs(lhs-rhs)/abs(lhs)))
# (9) non-interference bit-identical
U=jnp.asarray(rng.normal(size=(4,2,10,10))); a=jax.vmap(stb)(U); U2=U.at[2].set(U[2]*3+1); b=jax.vmap(stb)(U2)
print("non-interference lanes 0,1,3 bit-identical:", bool(jnp.all(a[jnp.array([0,1,3])]==b[jnp.array([0,1,3])])))
# (10) embeddings
N=10; L=2.0; dt=0.05
u1=jnp.asarray(0.5*rng.normal(size=(1,N)))
for name,mk1,mkD in [("KS",lambda D:S.KuramotoSivashinsky(D,L,N,dt),None),("Burgers_sc",lambda D:S.Burgers(D,L,N,dt,single_channel=True),None),("Fisher",lambda D:R.FisherKPP(D,L,N,dt),None),("Disp",lambda D:S.Dispersion(D,L,N,dt,dispersivity=0.01),None)]:
    a1=mk1(1)(u1)
    for D in [2,3]:
        for ax in range(D):
            shape=[1]*D; shape[ax]=N; uD=jnp.broadcast_to(u1.reshape([1]+shape),(1,)+(N,)*D)
            with contextlib.redirect_stdout(io.StringIO()): aD=mk1(D)(uD)
            ref=jnp.broadcast_to(a1.reshape([1]+shape),(1,)+(N,)*D)
            print("embed",name,D,ax,"%.1e"%float(jnp.abs(aD-ref).max()),end="; ")
    print()
# Burgers multi-channel embedding: only component ax nonzero
for D in [2,3]:
    for ax in range(D):
        shape=[1]*D; shape[ax]=N; comp=jnp.broadcast_to(u1.reshape(shape),(N,)*D); uD=jnp.zeros((D,)+(N,)*D).at[ax].set(comp)
        aD=S.Burgers(D,L,N,dt)(uD); a1=S.Burgers(1,L,N,dt)(u1)
        print("embed Burgers mc",D,ax,"%.1e"%float(jnp.abs(aD[ax]-jnp.broadcast_to(a1.reshape(shape),(N,)*D)).max()),"others %.1e"%float(jnp.abs(jnp.delete(aD,ax,axis=0)).max()))
