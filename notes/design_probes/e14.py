import jax; jax.config.update("jax_enable_x64", True)
import jax.numpy as jnp, numpy as np, itertools
import exponax as ex
rng=np.random.default_rng(0)
def trigpoly(D,Kmax,C,L):
    # random real trig polynomial with |k_d|<=Kmax, returns callable f(x: (D,...))->(C,...)
    ks=list(itertools.product(range(-Kmax,Kmax+1),repeat=D))
    a=rng.normal(size=(C,len(ks))); p=rng.uniform(0,2*np.pi,size=(C,len(ks)))
    def f(x):
        out=np.zeros((C,)+x.shape[1:])
        for j,k in enumerate(ks):
            ph=sum((2*np.pi/L)*k[d]*x[d] for d in range(D))
            for c in range(C): out[c]+=a[c,j]*np.cos(ph+p[c,j])
        return out
    return f
worst={}
for D in [1,2,3]:
  for Nold in ([7,8,9,10] if D<3 else [6,7]):
    for Nnew in [Nold-1,Nold+1,Nold+2,2*Nold,2*Nold+1,Nold-2]:
      L=rng.uniform(0.5,5); C=2
      Kmax=min((Nold-1)//2,(Nnew-1)//2)  # Nyquist-free on both
      if Kmax<1: continue
      f=trigpoly(D,Kmax,C,L)
      g_old=np.asarray(ex.make_grid(D,L,Nold)); g_new=np.asarray(ex.make_grid(D,L,Nnew))
      u=f(g_old)
      got=np.asarray(ex.map_between_resolutions(jnp.asarray(u),Nnew))
      e=np.abs(got-f(g_new)).max()
      worst[("map",D)]=max(worst.get(("map",D),0),e)
      back=np.asarray(ex.map_between_resolutions(jnp.asarray(got),Nold))
      worst[("roundtrip",D)]=max(worst.get(("roundtrip",D),0),np.abs(back-u).max())
      # mean preservation arbitrary state
      w=rng.normal(size=(C,)+(Nold,)*D)
      m=np.asarray(ex.map_between_resolutions(jnp.asarray(w),Nnew))
      worst[("mean",D)]=max(worst.get(("mean",D),0),np.abs(m.mean(axis=tuple(range(1,D+1)))-w.mean(axis=tuple(range(1,D+1)))).max())
    # interpolator
    L=rng.uniform(0.5,5); N=Nold; C=2
    f=trigpoly(D,(N-1)//2,C,L)
    u=f(np.asarray(ex.make_grid(D,L,N)))
    fi=ex.FourierInterpolator(jnp.asarray(u),domain_extent=L)
    xs=rng.uniform(-2*L,3*L,size=(20,D))
    vals=np.stack([np.asarray(fi(jnp.asarray(x))) for x in xs])
    ref=np.stack([f(x.reshape(D,1))[:,0] for x in xs])
    worst[("interp",D)]=max(worst.get(("interp",D),0),np.abs(vals-ref).max())
    # grid reproduction for arbitrary state (white noise)
    w=rng.normal(size=(C,)+(N,)*D); fi=ex.FourierInterpolator(jnp.asarray(w),domain_extent=L)
    g=np.asarray(ex.make_grid(D,L,N)).reshape(D,-1).T
    idx=rng.integers(0,len(g),size=15)
    vals=np.stack([np.asarray(fi(jnp.asarray(g[i]))) for i in idx]); ref=w.reshape(C,-1)[:,idx].T
    worst[("interp_grid_noise N%s"%("even" if N%2==0 else "odd"),D)]=max(worst.get(("interp_grid_noise N%s"%("even" if N%2==0 else "odd"),D),0),np.abs(vals-ref).max())
for k,v in sorted(worst.items()): print(k,"%.2e"%v)
