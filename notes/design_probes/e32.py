import jax; jax.config.update("jax_enable_x64", True)
import jax.numpy as jnp, numpy as np, inspect, io, contextlib, equinox as eqx
import exponax as ex
S=ex.stepper
def classes():
    out=[]
    for mod,names in [(S,S.__all__),(S.reaction,S.reaction.__all__),(S.generic,S.generic.__all__)]:
        for n in names:
            o=getattr(mod,n)
            if inspect.isclass(o) and issubclass(o,ex.BaseStepper): out.append(o)
    return out
rng=np.random.default_rng(0)
def dims_for(c):
    n=c.__name__
    if "Vorticity" in n: return [2]
    if "Velocity" in n: return [3]
    return [1,2]
res=[]
for c in classes():
    sig=inspect.signature(c.__init__); ps=list(sig.parameters)[1:]
    for D in dims_for(c):
        N=8 if D<3 else 6
        phys="domain_extent" in ps
        def build(dt=0.05,**kw):
            with contextlib.redirect_stdout(io.StringIO()):
                return c(D,1.3,N,dt,**kw) if phys else c(D,N,**kw)
        st0=build(); C=st0.num_channels
        u=jnp.asarray(0.3*rng.normal(size=(C,)+(N,)*D))
        targets=[]
        if phys: targets.append(("dt",lambda v: build(dt=v)(u),0.05))
        for pname,p in sig.parameters.items():
            if p.kind!=p.KEYWORD_ONLY: continue
            d=p.default
            if isinstance(d,bool) or (isinstance(d,int) and not isinstance(d,float)): continue
            if pname in("num_circle_points","order","injection_mode","circle_radius","dealiasing_fraction","maximum_absolute"): continue
            if isinstance(d,float):
                if pname in("velocity","dispersivity"):
                    targets.append((pname,lambda v,pn=pname: build(**{pn:v*jnp.ones(D)})(u), d if d!=0 else 0.1))
                elif pname=="diffusivity" and c.__name__ in("Diffusion","AdvectionDiffusion"):
                    targets.append((pname,lambda v,pn=pname: build(**{pn:v*jnp.ones(D)})(u), d))
                else:
                    targets.append((pname,lambda v,pn=pname: build(**{pn:v})(u), d if d!=0 else 0.1))
            elif isinstance(d,tuple) and all(isinstance(x,(int,float)) for x in d):
                for j in range(len(d)):
                    base=[float(x) for x in d]
                    def f(v,pn=pname,base=base,j=j):
                        b=list(base); b[j]=v; return build(**{pn:tuple(b)})(u)
                    targets.append(("%s[%d]"%(pname,j),f,base[j] if base[j]!=0 else 0.05))
        # state
        t=jnp.asarray(rng.normal(size=u.shape))
        try:
            j=jax.jvp(st0,(u,),(t,))[1]; h=1e-5
            fd=(4*(st0(u+h*t)-st0(u-h*t))/(2*h)-(st0(u+2*h*t)-st0(u-2*h*t))/(4*h))/3
            e=float(jnp.abs(j-fd).max()/jnp.maximum(1e-300,jnp.abs(j).max())); res.append((c.__name__,D,"state",bool(jnp.isfinite(j).all()),e))
        except Exception as ex_: res.append((c.__name__,D,"state","ERR "+type(ex_).__name__,None))
        for name,f,x0 in targets:
            try:
                j=jax.jvp(f,(float(x0),),(1.0,))[1]
                h=1e-4*max(abs(x0),1e-2)
                fd=(4*(f(x0+h)-f(x0-h))/(2*h)-(f(x0+2*h)-f(x0-2*h))/(4*h))/3
                sc=float(jnp.maximum(1e-300,jnp.abs(j).max()))
                e=float(jnp.abs(j-fd).max()/sc) if sc>1e-200 else float(jnp.abs(fd).max())
                res.append((c.__name__,D,name,bool(jnp.isfinite(j).all()),e))
            except Exception as ex_:
                res.append((c.__name__,D,name,"ERR "+type(ex_).__name__+" "+str(ex_).splitlines()[0][:60],None))
print("total",len(res))
bad=[r for r in res if r[3] is not True or (r[4] is not None and r[4]>1e-7)]
for b in bad: print(b)
print("worst ok:",sorted([r for r in res if r[3] is True and r[4] is not None],key=lambda r:-r[4])[:5])
