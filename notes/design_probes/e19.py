import jax; jax.config.update("jax_enable_x64", True)
import jax.numpy as jnp, numpy as np, equinox as eqx, functools
import exponax as ex
log=[]
def rec(tag, u, out):
    log.append((tag, np.asarray(u).shape, float(np.abs(np.asarray(out)).max())))
def is_tracer(x): return isinstance(x, jax.core.Tracer)
orig = ex.BaseStepper.__call__
def tapped(self, u):
    out = orig(self, u)
    leaves = jax.tree_util.tree_leaves((self, u, out))
    if any(is_tracer(l) for l in leaves):
        jax.debug.callback(functools.partial(rec,"traced:"+type(self).__name__), u, out, ordered=False)
    else:
        rec("eager:"+type(self).__name__, u, out)
    return out
ex.BaseStepper.__call__ = tapped
st=ex.stepper.Burgers(1,1.0,16,0.1)
u=jnp.sin(2*jnp.pi*ex.make_grid(1,1.0,16))
st(u)
ex.rollout(st,3)(u)
jax.vmap(st)(jnp.stack([u,2*u]))
eqx.filter_jit(st)(u)
eqx.filter_vmap(lambda s: s(u))(eqx.filter_vmap(lambda nu: ex.stepper.Burgers(1,1.0,16,0.1,diffusivity=nu))(jnp.array([0.1,0.2])))
jax.vmap(ex.rollout(st,2))(jnp.stack([u,2*u]))
jax.effects_barrier()
for l in log: print(l)
# grads still work?
g=jax.grad(lambda v: jnp.sum(st(v)**2))(u); print("grad ok", g.shape)
j=jax.jvp(st,(u,),(u,)); print("jvp ok")
jax.effects_barrier()
print(len(log))
for l in log[-4:]: print(l)
