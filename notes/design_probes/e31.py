import jax; jax.config.update("jax_enable_x64", True)
import jax.numpy as jnp, numpy as np, inspect, io, contextlib, equinox as eqx, typing
import exponax as ex
S=ex.stepper
def classes():
    out=[]
    for mod,names in [(S,S.__all__),(S.reaction,S.reaction.__all__),(S.generic,S.generic.__all__)]:
        for n in names:
            o=getattr(mod,n)
            if inspect.isclass(o) and issubclass(o,ex.BaseStepper): out.append(o)
    return out
rng=np.random.default_rng(0)
def dims_for(c):
    n=c.__name__
    if "Vorticity" in n: return [2]
    if "Velocity" in n: return [3]
    return [1,2]
def base_args(c,D,N):
    ps=list(inspect.signature(c.__init__).parameters)[1:]
    return (D,1.0,N,0.05) if "domain_extent" in ps else (D,N)
res=[]
for c in classes():
    sig=inspect.signature(c.__init__)
    for D in dims_for(c):
        N=8 if D<3 else 6
        for pname,p in sig.parameters.items():
            if p.kind!=p.KEYWORD_ONLY: continue
            d=p.default
            if isinstance(d,bool) or isinstance(d,int) and not isinstance(d,float): continue
            if pname in("num_circle_points","order","injection_mode"): continue
            # candidate values
            if isinstance(d,float):
                vals=jnp.array([d if d!=0 else 0.1, (d if d!=0 else 0.1)*1.3]); mk=lambda v,pn=pname: {pn:v}
            elif isinstance(d,tuple) and all(isinstance(x,(int,float)) for x in d):
                base=[float(x) for x in d]
                vals=jnp.array([1.0,1.3]); mk=lambda v,pn=pname,base=base: {pn:tuple(b*v for b in base)}
            else: continue
            def build(v):
                with contextlib.redirect_stdout(io.StringIO()):
                    return c(*base_args(c,D,N),**mk(v))
            try:
                ens=eqx.filter_vmap(build)(vals)
                u=jnp.asarray(0.3*rng.normal(size=(ens.num_channels,)+(N,)*D))
                outs=eqx.filter_vmap(lambda s: s(u))(ens)
                ref=jnp.stack([build(float(v))(u) for v in vals])
                err=float(jnp.abs(outs-ref).max()/jnp.maximum(1e-300,jnp.abs(ref).max()))
                status="ok" if err<1e-11 else "MISMATCH %.1e"%err
            except Exception as e:
                status="ERR "+type(e).__name__+": "+str(e).splitlines()[0][:70]
            if status!="ok": res.append((c.__name__,D,pname,status))
            else: res.append((c.__name__,D,pname,"ok"))
bad=[r for r in res if r[3]!="ok"]
print("total",len(res),"ok",len(res)-len(bad))
for b in bad: print(b)
