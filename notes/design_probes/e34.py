import jax; jax.config.update("jax_enable_x64", True)
import jax.numpy as jnp, numpy as np, itertools
import exponax as ex
rng=np.random.default_rng(0)
def trig(D,K,L,C):
    ks=[k for k in itertools.product(range(-K,K+1),repeat=D)]
    a=rng.normal(size=(C,len(ks))); p=rng.uniform(0,2*np.pi,size=(C,len(ks)))
    def f(x,der=None):  # der: tuple of orders per axis
        out=np.zeros((C,)+x.shape[1:])
        for j,k in enumerate(ks):
            ph=sum(2*np.pi/L*k[d]*x[d] for d in range(D))
            fac=1.0; shift=0
            if der is not None:
                for d in range(D):
                    fac*=(2*np.pi/L*k[d])**der[d]; shift+=der[d]
            for c in range(C): out[c]+=a[c,j]*fac*np.cos(ph+p[c,j]+shift*np.pi/2)
        return out
    return f,sum(np.abs(a).sum(axis=1))
w={}
for D in [1,2,3]:
  for N in ([8,9] if D<3 else [6,7]):
    for C in [1,2]:
      L=rng.uniform(0.3,5); K=(N-1)//2
      f,amp=trig(D,K,L,C); x=np.stack(np.meshgrid(*[np.arange(N)*L/N]*D,indexing="ij")); u=f(x)
      for order in [1,2,3,4,5,6]:
        d=np.asarray(ex.derivative(jnp.asarray(u),L,order=order))
        for ax in range(D):
            der=[0]*D; der[ax]=order; ref=f(x,tuple(der))
            got=d[:,ax] if C>1 else d[ax:ax+1] if D>1 else d
            sc=amp*(2*np.pi*K/L)**order
            w[("deriv",D,order)]=max(w.get(("deriv",D,order),0),np.abs(got-ref).max()/sc)
      # Poisson
      for po in [2,4]:
        sol=np.asarray(ex.poisson.Poisson(D,L,N,order=po)(jnp.asarray(u)))
        lap=sum(f(x,tuple(po if a==ax else 0 for a in range(D))) for ax in range(D))  # of u, not sol; instead verify operator on sol via spectral
        sh=np.fft.fftn(sol,axes=tuple(range(1,D+1))); ks=np.meshgrid(*[np.fft.fftfreq(N,1/N)]*D,indexing="ij")
        op=sum((1j*2*np.pi/L*k)**po for k in ks)
        lhs=np.real(np.fft.ifftn(op*sh,axes=tuple(range(1,D+1))))
        rhs=-(u-u.mean(axis=tuple(range(1,D+1)),keepdims=True))
        w[("poisson",D,po)]=max(w.get(("poisson",D,po),0),np.abs(lhs-rhs).max()/amp); w[("poisson_mean",D,po)]=max(w.get(("poisson_mean",D,po),0),np.abs(sol.mean(axis=tuple(range(1,D+1)))).max())
for k,v in sorted(w.items(),key=str): print(k,"%.1e"%v)
# C18 extras
key=jax.random.PRNGKey(3)
for D,N in [(1,33),(2,12),(3,7)]:
    wn=ex.ic.WhiteNoise(D)(N,key=key)
    grf=ex.ic.GaussianRandomField(D,domain_extent=2.0,powerlaw_exponent=3.0)(N,key=key)
    ks=np.meshgrid(*[np.fft.fftfreq(N,1/N)]*D,indexing="ij"); kn=2*np.pi/2.0*np.sqrt(sum(k**2 for k in ks))
    a=np.abs(np.fft.fftn(np.asarray(grf[0]))); b=np.abs(np.fft.fftn(np.asarray(wn[0])))
    m=kn>0; r=a[m]/(b[m]*kn[m]**-1.5)
    dn=ex.ic.DiffusedNoise(D,domain_extent=2.0,intensity=0.003)(N,key=key); c=np.abs(np.fft.fftn(np.asarray(dn[0])))
    r2=c[m]/(b[m]*np.exp(-0.003*kn[m]**2))
    cl=ex.ic.ClampingICGenerator(ex.ic.RandomTruncatedFourierSeries(D),limits=(-0.3,1.7))(N,key=key)
    tf=ex.ic.RandomTruncatedFourierSeries(D,cutoff=2,max_one=True)(N,key=key); th=np.abs(np.fft.fftn(np.asarray(tf[0]))); out=np.ones((N,)*D,bool)
    for k in ks: out&=(np.abs(k)<=2)
    print(D,N,"GRF ratio spread %.1e"%(r.max()/r.min()-1),"Diffused ratio spread %.1e"%(r2.max()/r2.min()-1),"clamp",float(cl.min()),float(cl.max()),"TFS outside-band max %.1e max|u| %.6f mean %.1e"%(th[~out].max(),float(jnp.abs(tf).max()),float(tf.mean())))
