import sys; sys.path.insert(0,"/tmp/explore/deps")
import jax; jax.config.update("jax_enable_x64", True)
import jax.numpy as jnp, numpy as np, equinox as eqx
import icontract
import exponax as ex
from exponax.etdrk import ETDRK2
class InvBroken(Exception): pass
count=[0]
def coef_ok(self):
    count[0]+=1
    return bool(np.all(np.isfinite(np.asarray(self._coef_1))))
try:
    ETDRK2b = icontract.invariant(coef_ok, error=InvBroken)(ETDRK2)
    print("decorated:", ETDRK2b is ETDRK2)
    st = ex.stepper.Burgers(1,1.0,16,0.1)
    print("evals after construction", count[0], type(st._integrator).__name__)
    u=jnp.sin(2*jnp.pi*ex.make_grid(1,1.0,16))
    st(u); print("evals after call", count[0])
    # under filter_vmap construction (tracers)
    try:
        e=eqx.filter_vmap(lambda nu: ex.stepper.Burgers(1,1.0,16,0.1,diffusivity=nu))(jnp.array([0.1,0.2]))
        print("vmapped ctor ok; evals", count[0])
    except Exception as ex_: print("vmapped ctor ERR", type(ex_).__name__, str(ex_)[:200])
    # rollout (scan): stepper is closed over
    tr=ex.rollout(st,3)(u); print("rollout ok", tr.shape, "evals", count[0])
except Exception as e:
    import traceback; traceback.print_exc()
