import jax; jax.config.update("jax_enable_x64", True)
import jax.numpy as jnp, numpy as np, itertools, math
import exponax as ex
M=ex.metrics
rng=np.random.default_rng(0)
w={}
def upd(k,v): w[k]=max(w.get(k,0),float(v))
for D in [1,2,3]:
  for N in ([8,9] if D<3 else [6,7]):
    for C in [1,2]:
      L=rng.uniform(0.5,4)
      u=jnp.asarray(rng.normal(size=(C,)+(N,)*D)); v=jnp.asarray(rng.normal(size=(C,)+(N,)*D))
      for sp,fo in [(M.MSE,M.fourier_MSE),(M.RMSE,M.fourier_RMSE),(M.nMSE,M.fourier_nMSE),(M.nRMSE,M.fourier_nRMSE)]:
          a=sp(u,v,domain_extent=L); b=fo(u,v,domain_extent=L); upd(("parseval",sp.__name__,D,N%2),abs(a-b)/abs(a))
      # band additivity for fourier_MSE: partition 0..N//2 into bands
      tot=M.fourier_MSE(u,v,domain_extent=L)
      parts=sum(M.fourier_MSE(u,v,domain_extent=L,low=k,high=k) for k in range(0,N//2+1))
      upd(("band_add",D,N%2),abs(tot-parts)/abs(tot))
      # H1 decomposition with ex.derivative
      du=ex.derivative(u,L); dv=ex.derivative(v,L)
      if C>1: du=du.reshape((C*D,)+(N,)*D); dv=dv.reshape((C*D,)+(N,)*D)
      h=M.H1_MSE(u,v,domain_extent=L); ref=M.MSE(u,v,domain_extent=L)+M.MSE(du,dv,domain_extent=L)
      upd(("H1_MSE_noise",D,N%2),abs(h-ref)/abs(ref))
      h=M.H1_RMSE(u,v,domain_extent=L); ref=M.RMSE(u,v,domain_extent=L)+M.RMSE(du,dv,domain_extent=L)
      upd(("H1_RMSE_noise",D,N%2),abs(h-ref)/abs(ref))
      # correlation
      upd(("corr_self",D),abs(M.correlation(u,3*u)-1)); upd(("corr_neg",D),abs(M.correlation(u,-2*u)+1))
for k,v in sorted(w.items(),key=str): print(k,"%.2e"%v)
