import functools, inspect, json, numpy as np
counts={"ctor":0,"call_eager":0,"call_traced":0,"viol":0}
def pytest_configure(config):
    import jax, exponax as ex
    def all_sub(c):
        out=set()
        for s in c.__subclasses__(): out.add(s); out|=all_sub(s)
        return out
    orig_call=ex.BaseStepper.__call__
    def sink(u,out):
        counts["call_traced"]+=1
    def call(self,u):
        out=orig_call(self,u)
        if any(isinstance(l,jax.core.Tracer) for l in jax.tree_util.tree_leaves((self,u,out))):
            jax.debug.callback(sink,u,out,ordered=True)
        else:
            counts["call_eager"]+=1
            if out.shape!=u.shape or not np.isfinite(np.asarray(out)).all(): counts["viol"]+=1
        return out
    ex.BaseStepper.__call__=call
def pytest_sessionfinish(session, exitstatus):
    import jax; jax.effects_barrier()
    print("\nAMBIENT",json.dumps(counts))
