import jax; jax.config.update("jax_enable_x64", True)
import jax.numpy as jnp, numpy as np
import exponax as ex
from scipy.integrate import solve_ivp
N=32; L=2*np.pi; T=0.2
def make(order, dt, cls="kdv"):
    if cls=="kdv":
        return ex.stepper.KortewegDeVries(1, L, N, dt, order=order, hyper_diffusivity=0.0, convection_scale=1.0, dispersivity=1.0)
    return ex.stepper.Burgers(1, L, N, dt, order=order, diffusivity=0.1)
x = ex.make_grid(1, L, N)
u0 = jnp.sin(x)+0.5*jnp.cos(2*x)
for cls in ["kdv","burgers"]:
    s = make(2, 0.1, cls)
    integ = s._integrator
    Lop = np.asarray((jnp.log(integ._exp_term)))  # not reliable; rebuild
    D = ex.spectral.build_derivative_operator(1, L, N)
    Lop = np.asarray(s._build_linear_operator(D))
    nf = integ._nonlinear_fun
    def rhs(t, y):
        yh = (y[:N//2+1] + 1j*y[N//2+1:]).reshape(1,-1)
        r = Lop*yh + np.asarray(nf(jnp.asarray(yh)))
        r = r.reshape(-1)
        return np.concatenate([r.real, r.imag])
    u0h = np.asarray(ex.fft(u0)).reshape(-1)
    sol = solve_ivp(rhs, (0,T), np.concatenate([u0h.real,u0h.imag]), method="DOP853", rtol=1e-13, atol=1e-13)
    yT = sol.y[:,-1]; uTh = (yT[:N//2+1]+1j*yT[N//2+1:]).reshape(1,-1)
    uT = np.asarray(ex.ifft(jnp.asarray(uTh), num_points=N))
    for order in [1,2,3,4]:
        errs=[]
        for n in [8,16,32,64]:
            st = make(order, T/n, cls)
            u = ex.repeat(st, n)(u0)
            errs.append(float(np.max(np.abs(np.asarray(u)-uT))))
        rates=[np.log2(errs[i]/errs[i+1]) for i in range(len(errs)-1)]
        print(cls, order, ["%.2e"%e for e in errs], ["%.2f"%r for r in rates])
