import jax; jax.config.update("jax_enable_x64", True)
import jax.numpy as jnp, numpy as np
import exponax as ex
from exponax.etdrk import ETDRK1, ETDRK2, ETDRK3, ETDRK4
from exponax.nonlin_fun import ZeroNonlinearFun
# coefficient check: phi1 for complex z
def phi1(z): return (np.exp(z)-1)/z
for z in [-1.0+0j, 2j, -0.5+3j, 1e-9+0j, 0j, -1e3+0j, 50j]:
    L = jnp.array([[z]], dtype=complex)
    nf = ZeroNonlinearFun(1, 1)
    e = ETDRK1(1.0, L, nf)
    ref = phi1(z) if z!=0 else 1.0
    print(z, complex(e._coef_1[0,0]), ref)
