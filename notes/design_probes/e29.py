import sys, jax
X64=sys.argv[1]=="x64"
if X64: jax.config.update("jax_enable_x64", True)
import jax.numpy as jnp, numpy as np, io, contextlib
import exponax as ex
S=ex.stepper; R=S.reaction; G=S.generic
rng=np.random.default_rng(0)
out={}
with contextlib.redirect_stdout(io.StringIO()):
  for D,N in [(1,64),(2,24),(3,12)]:
    for order in [0,1,2,3,4]:
        cfg={"Burgers":lambda:S.Burgers(D,1.0,N,0.01,order=order),"KdV":lambda:S.KortewegDeVries(D,20.0,N,0.01,order=order),"KS":lambda:S.KuramotoSivashinsky(D,30.0,N,0.1,order=order),
             "KSfine":lambda:S.KuramotoSivashinsky(D,3.0,N,0.5,order=order),   # stiff: lambda*dt ~ -(2pi k/L)^4 dt
             "Fisher":lambda:R.FisherKPP(D,1.0,N,0.01,order=order),"GrayScott":lambda:R.GrayScott(D,1.0,N,1.0,order=order),"CahnH":lambda:R.CahnHilliard(D,1.0,N,0.001,order=order),
             "Hyp":lambda:S.HyperDiffusion(D,1.0,N,10.0),"Adv":lambda:S.Advection(D,1.0,N,0.37),"Wave":lambda:S.Wave(D,1.0,N,0.37)}
        if D==2: cfg["NS2"]=lambda:S.NavierStokesVorticity(D,1.0,N,0.01,order=order); cfg["KF2"]=lambda:S.KolmogorovFlowVorticity(D,2*np.pi,N,0.01,order=order)
        if D==3: cfg["NS3"]=lambda:S.NavierStokesVelocity(D,1.0,N,0.01,order=order)
        for name,mk in cfg.items():
            if name in("Hyp","Adv","Wave") and order>0: continue
            st=mk(); C=st.num_channels
            u=np.random.default_rng(__import__("zlib").crc32((name+str(D)).encode())).normal(size=(C,)+(N,)*D)*0.5
            if name in("Fisher","GrayScott"): u=np.abs(u)%1.0
            o=st(jnp.asarray(u,dtype=jnp.float64 if X64 else jnp.float32))
            out["%s|%d|%d"%(name,D,order)]=np.asarray(o)
            assert o.dtype==(jnp.float64 if X64 else jnp.float32),(name,o.dtype)
            z=st(jnp.zeros_like(o)); assert bool(jnp.isfinite(z).all()),name
np.savez(sys.argv[2],**out)
