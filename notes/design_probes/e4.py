import jax; jax.config.update("jax_enable_x64", True)
import jax.numpy as jnp, numpy as np
import exponax as ex
# C12 2D
for L in [2*np.pi, 1.0, 3.0]:
    N=16; k=2; gamma=0.7; nu=0.05; drag=-0.1; dt=0.01; n=20
    st = ex.stepper.KolmogorovFlowVorticity(2, L, N, dt, diffusivity=nu, drag=drag, injection_mode=k, injection_scale=gamma, order=4)
    u = ex.repeat(st, n)(jnp.zeros((1,N,N)))
    g = ex.make_grid(2, L, N)
    kk = 2*np.pi*k/L; sigma = drag - nu*kk**2; t=n*dt
    amp_doc = -kk*gamma*(np.exp(sigma*t)-1)/sigma
    ref = amp_doc*jnp.cos(kk*g[1:2])
    # fit amplitude
    basis = jnp.cos(kk*g[1:2])
    a = float(jnp.sum(u*basis)/jnp.sum(basis*basis))
    resid = float(jnp.max(jnp.abs(u - a*basis)))
    print("2D L=%.3f fitted amp %.6f doc amp %.6f ratio %.6f (L/2pi=%.6f) resid %.2e"%(L,a,amp_doc,a/amp_doc, L/(2*np.pi), resid))
# C12 3D
for L in [2*np.pi, 1.0]:
    N=8; k=1; gamma=0.7; nu=0.05; drag=-0.1; dt=0.01; n=20
    st = ex.stepper.KolmogorovFlowVelocity(3, L, N, dt, diffusivity=nu, drag=drag, injection_mode=k, injection_scale=gamma, order=4)
    u = ex.repeat(st, n)(jnp.zeros((3,N,N,N)))
    g = ex.make_grid(3, L, N)
    kk = 2*np.pi*k/L; sigma = drag - nu*kk**2; t=n*dt
    amp_doc = gamma*(np.exp(sigma*t)-1)/sigma
    s = jnp.sin(kk*g[1]); c = jnp.cos(kk*g[1])
    a_s = float(jnp.sum(u[0]*s)/jnp.sum(s*s)); a_c = float(jnp.sum(u[0]*c)/jnp.sum(c*c))
    print("3D L=%.3f sin-amp %.6f cos-amp %.6f doc(sin) %.6f ; other channels max %.2e %.2e; resid %.2e"%(L,a_s,a_c,amp_doc, float(jnp.abs(u[1]).max()), float(jnp.abs(u[2]).max()), float(jnp.abs(u[0]-a_s*s-a_c*c).max())))
    # is u_hat hermitian? step_fourier from zeros
    uh = st.step_fourier(jnp.zeros((3,N,N,N//2+1),dtype=complex))
    print("   uhat at (0,+k,0):", complex(uh[0,0,k,0]), " at (0,-k,0):", complex(uh[0,0,-k,0]))
