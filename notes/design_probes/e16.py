import jax
import jax.numpy as jnp, numpy as np, itertools, math, inspect, io, contextlib
import exponax as ex
S=ex.stepper
def classes():
    out=[]
    for mod,names in [(S,S.__all__),(S.reaction,S.reaction.__all__),(S.generic,S.generic.__all__)]:
        for n in names:
            o=getattr(mod,n)
            if inspect.isclass(o) and issubclass(o,ex.BaseStepper): out.append(o)
    return out
cl=classes(); print(len(cl),[c.__name__ for c in cl])
def build(c,D,N):
    sig=inspect.signature(c.__init__); ps=list(sig.parameters)[1:]
    with contextlib.redirect_stdout(io.StringIO()):
        if "domain_extent" in ps: return c(D,1.0,N,0.01)
        else: return c(D,N)
res={}
for c in cl:
    for D in [1,2,3]:
        N=8
        try: st=build(c,D,N)
        except Exception as e:
            res[(c.__name__,D)]="ctor:"+type(e).__name__; continue
        C=st.num_channels
        good=jnp.ones((C,)+(N,)*D)*0.1
        try:
            o=st(good); ok=o.shape==good.shape
        except Exception as e: ok="good raised "+type(e).__name__
        bads={"chan+1":jnp.ones((C+1,)+(N,)*D),"batch":jnp.ones((2,C)+(N,)*D),"missing_axis":jnp.ones((C,)+(N,)*(D-1)) if D>1 else jnp.ones((N,)),"N+1":jnp.ones((C,)+(N+1,)*D),"unequal":jnp.ones((C,)+(N,)*(D-1)+(N+2,)),"nochan":jnp.ones((N,)*D)}
        r={}
        for k,b in bads.items():
            try: st(b); r[k]="ACCEPTED"
            except ValueError: r[k]="VE"
            except Exception as e: r[k]=type(e).__name__
        notve={k:v for k,v in r.items() if v!="VE"}
        res[(c.__name__,D)]=(ok,notve)
for k,v in res.items():
    if v!=(True,{}): print(k,v)
# wrappers
st=S.Diffusion(1,1.0,8,0.1)
for name,w in [("Repeated",ex.RepeatedStepper(st,3)),("Forced",ex.ForcedStepper(st))]:
    for k,b in {"chan+1":jnp.ones((2,8)),"batch":jnp.ones((2,1,8)),"N+1":jnp.ones((1,9))}.items():
        try:
            o=w(b) if name=="Repeated" else w(b,b); print(name,k,"ACCEPTED",o.shape)
        except ValueError as e: print(name,k,"VE")
        except Exception as e: print(name,k,type(e).__name__)
p=ex.poisson.Poisson(2,1.0,8)
for k,b in {"chan3":jnp.ones((3,8,8)),"batch":jnp.ones((2,1,8,8)),"N+1":jnp.ones((1,9,9)),"1d":jnp.ones((1,8)),"unequal":jnp.ones((1,8,9))}.items():
    try: o=p(b); print("Poisson",k,"ACCEPTED",o.shape)
    except ValueError: print("Poisson",k,"VE")
    except Exception as e: print("Poisson",k,type(e).__name__)
