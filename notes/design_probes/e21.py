import jax; jax.config.update("jax_enable_x64", True); jax.config.update("jax_debug_nans", True)
import jax.numpy as jnp, numpy as np
import exponax as ex
for name,f in [("NS2",lambda: ex.stepper.NavierStokesVorticity(2,1.0,8,0.1)),("NS3",lambda: ex.stepper.NavierStokesVelocity(3,1.0,6,0.1)),("Wave",lambda: ex.stepper.Wave(1,1.0,8,0.1)),("Poisson",lambda: ex.poisson.Poisson(2,1.0,8)),("Burgers4",lambda: ex.stepper.Burgers(1,1.0,8,0.1,order=4)),("GRF",lambda: ex.ic.GaussianRandomField(2)(8,key=jax.random.PRNGKey(0))),("spectrum avg",lambda: ex.get_spectrum(jnp.ones((1,8,8)),radial_binning="average"))]:
    try:
        o=f(); 
        if hasattr(o,"num_channels"):
            o(jnp.ones((o.num_channels,)+(o.num_points,)*o.num_spatial_dims))
        print(name,"no NaN raised")
    except FloatingPointError as e: print(name,"FloatingPointError:",str(e)[:100])
    except Exception as e: print(name,type(e).__name__,str(e)[:100])
