import jax; jax.config.update("jax_enable_x64", True)
import jax.numpy as jnp, numpy as np, itertools, math
import exponax as ex
rng=np.random.default_rng(0)
S=ex.stepper; R=ex.stepper.reaction; G=ex.stepper.generic
def steppers(D,N,L,dt,order):
    d={}
    d["Advection"]=S.Advection(D,L,N,dt,velocity=0.8)
    d["Diffusion"]=S.Diffusion(D,L,N,dt,diffusivity=0.02)
    d["AdvDiff"]=S.AdvectionDiffusion(D,L,N,dt)
    d["Dispersion"]=S.Dispersion(D,L,N,dt,dispersivity=0.01)
    d["HyperDiff"]=S.HyperDiffusion(D,L,N,dt)
    d["Wave"]=S.Wave(D,L,N,dt)
    d["Burgers"]=S.Burgers(D,L,N,dt,order=order)
    d["Burgers_cons"]=S.Burgers(D,L,N,dt,order=order,conservative=True)
    d["Burgers_sc"]=S.Burgers(D,L,N,dt,order=order,single_channel=True)
    d["Burgers_sc_cons"]=S.Burgers(D,L,N,dt,order=order,single_channel=True,conservative=True)
    d["KdV"]=S.KortewegDeVries(D,L,N,dt,order=order,convection_scale=1.0,dispersivity=0.01)
    d["KdV_cons"]=S.KortewegDeVries(D,L,N,dt,order=order,convection_scale=1.0,dispersivity=0.01,conservative=True)
    d["KS"]=S.KuramotoSivashinsky(D,L,N,dt,order=order)
    d["KSC"]=S.KuramotoSivashinskyConservative(D,L,N,dt,order=order) if D==1 else None
    d["Fisher"]=R.FisherKPP(D,L,N,dt,order=order)
    d["AllenCahn"]=R.AllenCahn(D,L,N,dt,order=order)
    d["CahnHilliard"]=R.CahnHilliard(D,L,N,dt,order=order)
    d["SwiftHohenberg"]=R.SwiftHohenberg(D,L,N,dt,order=order)
    d["GrayScott"]=R.GrayScott(D,L,N,dt,order=order)
    d["GenNonlin"]=G.GeneralNonlinearStepper(D,L,N,dt,order=order,nonlinear_coefficients=(0.1,-0.5,0.2))
    if D==2:
        d["NS2"]=S.NavierStokesVorticity(D,L,N,dt,order=order)
        d["KF2"]=S.KolmogorovFlowVorticity(D,L,N,dt,order=order,injection_mode=2)
    if D==3:
        d["NS3"]=S.NavierStokesVelocity(D,L,N,dt,order=order)
        d["KF3"]=S.KolmogorovFlowVelocity(D,L,N,dt,order=order,injection_mode=1)
    return {k:v for k,v in d.items() if v is not None}
import contextlib, io
for D,N in [(1,12),(1,11),(2,8),(2,7),(3,6),(3,5)]:
    L=3.0; dt=0.05
    with contextlib.redirect_stdout(io.StringIO()):
        sts=steppers(D,N,L,dt,2)
    res=[]
    for name,st in sts.items():
        C=st.num_channels
        u=0.3*rng.normal(size=(C,)+(N,)*D)
        u=jnp.asarray(u)
        base=st(u)
        # translation
        shift=tuple(rng.integers(0,N,size=D))
        axes=tuple(range(1,D+1))
        if name in("KF2",): shift=(shift[0],0)       # forcing varies along last axis (x1): invariant along axis 0
        if name in("KF3",): shift=(shift[0],0,shift[2])
        e_t=float(jnp.abs(st(jnp.roll(u,shift,axes))-jnp.roll(base,shift,axes)).max())
        mean_drift=float(jnp.abs(base.mean(axis=axes)-u.mean(axis=axes)).max())
        res.append((name,"transl %.1e"%e_t,"meandrift %.1e"%mean_drift))
    print(D,N); 
    for r in res: print("   ",*r)
