import jax; jax.config.update("jax_enable_x64", True)
import jax.numpy as jnp, numpy as np, itertools
import exponax as ex
rng=np.random.default_rng(0)
for D,N in [(1,9),(1,8),(2,7),(2,6),(3,5),(3,4)]:
  for L,c,dt in [(1.0,1.0,0.1),(5.0,2.3,1e3),(2.0,0.7,-0.4)]:
    st=ex.stepper.Wave(D,L,N,dt,speed_of_sound=c)
    # random real state, Nyquist-free
    u=rng.normal(size=(2,)+(N,)*D)
    uh=np.fft.fftn(u,axes=tuple(range(1,D+1)))
    ks=np.meshgrid(*[np.fft.fftfreq(N,1/N)]*D,indexing="ij")
    nyq=np.zeros((N,)*D,bool)
    if N%2==0:
        for k in ks: nyq|=(np.abs(k)==N//2)
    uh[:,nyq]=0
    u=np.real(np.fft.ifftn(uh,axes=tuple(range(1,D+1))))
    uh=np.fft.fftn(u,axes=tuple(range(1,D+1)))
    om=c*(2*np.pi/L)*np.sqrt(sum(k**2 for k in ks))
    h0,v0=uh[0],uh[1]
    with np.errstate(divide="ignore",invalid="ignore"):
        h1=h0*np.cos(om*dt)+np.where(om==0,v0*dt,v0*np.sin(om*dt)/om)
    v1=-h0*om*np.sin(om*dt)+v0*np.cos(om*dt)
    ref=np.real(np.fft.ifftn(np.stack([h1,v1]),axes=tuple(range(1,D+1))))
    out=np.asarray(st(jnp.asarray(u)))
    E=lambda h,v: np.sum(np.abs(v)**2+ (om**2)*np.abs(h)**2)
    o_h=np.fft.fftn(out,axes=tuple(range(1,D+1)))
    print(D,N,L,c,dt,"err %.2e"%(np.abs(out-ref).max()/np.abs(ref).max()), "energy rel %.2e"%(abs(E(o_h[0],o_h[1])-E(h0,v0))/E(h0,v0)), "max|om dt| %.1e"%np.abs(om*dt).max())
