import jax; jax.config.update("jax_enable_x64", True)
import jax.numpy as jnp, numpy as np
import exponax as ex
key = jax.random.PRNGKey(0)
for D,N in [(1,32),(2,16),(3,8)]:
    g = ex.ic.RandomTruncatedFourierSeries(D, offset_range=(2.0,2.0))
    u = g(N, key=key); print("TFS D",D,"N",N,"shape",u.shape,"mean",float(u.mean()), "expected 2.0; 2/N^D=",2/N**D)
    g2 = ex.ic.RandomDiscontinuities(D)
    u2 = g2(N, key=key); print("  Disc shape", u2.shape, "channels identical:", bool(jnp.all(u2==u2[0:1])))
# RandomSineWaves1d under build_ic_set (scan -> tracing)
try:
    s = ex.build_ic_set(ex.ic.RandomSineWaves1d(1), num_points=16, num_samples=3, key=key); print("sine ic set", s.shape)
except Exception as e:
    print("sine ic set error", type(e).__name__, str(e)[:150])
try:
    s = ex.build_ic_set(ex.ic.RandomSineWaves1d(1, std_one=True), num_points=16, num_samples=3, key=key); print("sine ic set std_one", s.shape)
except Exception as e:
    print("sine ic set std_one error", type(e).__name__, str(e)[:150])
for gen in [ex.ic.RandomDiscontinuities(1), ex.ic.RandomGaussianBlobs(2), ex.ic.GaussianRandomField(2), ex.ic.DiffusedNoise(2), ex.ic.RandomTruncatedFourierSeries(2)]:
    try:
        s = ex.build_ic_set(gen, num_points=16, num_samples=3, key=key); print(type(gen).__name__, s.shape)
    except Exception as e:
        print(type(gen).__name__, "error", type(e).__name__, str(e)[:150])
