import jax; jax.config.update("jax_enable_x64", True)
import jax.numpy as jnp, numpy as np, equinox as eqx
import exponax as ex
key=jax.random.PRNGKey(1)
def fin(name,f):
    try:
        r=f(); print(name, "all finite:", bool(jnp.isfinite(r).all()), "max", float(jnp.nanmax(jnp.abs(r))))
    except Exception as e: print("ERR",name,type(e).__name__,str(e).splitlines()[0][:120])
N=12
fin("NS2 du", lambda: jax.jacfwd(ex.stepper.NavierStokesVorticity(2,1.0,8,0.1))(jax.random.normal(key,(1,8,8))))
fin("NS3 du rev", lambda: jax.grad(lambda u: jnp.sum(ex.stepper.NavierStokesVelocity(3,1.0,6,0.1)(u)**2))(jax.random.normal(key,(3,6,6,6))))
fin("NS2 dnu", lambda: jax.jacfwd(lambda nu: ex.stepper.NavierStokesVorticity(2,1.0,8,0.1,diffusivity=nu)(jax.random.normal(key,(1,8,8))))(0.01))
fin("NS2 dL", lambda: jax.jacfwd(lambda L: ex.stepper.NavierStokesVorticity(2,L,8,0.1)(jax.random.normal(key,(1,8,8))))(1.0))
fin("Wave dL", lambda: jax.jacfwd(lambda L: ex.stepper.Wave(1,L,N,0.1)(jax.random.normal(key,(2,N))))(1.0))
fin("Wave dc", lambda: jax.jacfwd(lambda c: ex.stepper.Wave(1,1.0,N,0.1,speed_of_sound=c)(jax.random.normal(key,(2,N))))(1.0))
fin("Wave du", lambda: jax.jacfwd(ex.stepper.Wave(2,1.0,6,0.1))(jax.random.normal(key,(2,6,6))))
fin("Wave ddt", lambda: jax.jacfwd(lambda dt: ex.stepper.Wave(1,1.0,N,dt)(jax.random.normal(key,(2,N))))(0.1))
fin("NS3 dL", lambda: jax.jacfwd(lambda L: ex.stepper.NavierStokesVelocity(3,L,6,0.1)(jax.random.normal(key,(3,6,6,6))))(1.0))
fin("Burgers ddt o4", lambda: jax.jacfwd(lambda dt: ex.stepper.Burgers(1,1.0,N,dt,order=4)(jax.random.normal(key,(1,N))))(0.1))
fin("Diffusion dnu", lambda: jax.jacfwd(lambda nu: ex.stepper.Diffusion(1,1.0,N,0.1,diffusivity=nu*jnp.ones(1))(jax.random.normal(key,(1,N))))(0.1))
fin("GradNorm KS du", lambda: jax.jacfwd(ex.stepper.KuramotoSivashinsky(2,10.0,8,0.1))(jax.random.normal(key,(1,8,8))))
# rollout reverse
st=ex.stepper.Burgers(1,1.0,N,0.05)
fin("rollout grad", lambda: jax.grad(lambda u: jnp.sum(ex.rollout(st,5)(u)**2))(jax.random.normal(key,(1,N))))
# ETDRK at zero-state derivative? abs at zero etc. metrics grads
fin("grad MAE at equal", lambda: jax.grad(lambda u: ex.metrics.MAE(u, jnp.zeros((1,N))))(jnp.zeros((1,N))))
fin("grad RMSE at equal", lambda: jax.grad(lambda u: ex.metrics.RMSE(u, jnp.zeros((1,N))))(jnp.zeros((1,N))))
