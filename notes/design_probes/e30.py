import sys; sys.path.insert(0,"/tmp/explore/deps")
import jax; jax.config.update("jax_enable_x64", True)
import jax.numpy as jnp, numpy as np, inspect, functools, icontract
import exponax as ex
rng=np.random.default_rng(0)
# (g) mean N(u) = mean(u_K div u_K)
N=12; L=2.0; D=3
st=ex.stepper.NavierStokesVelocity(3,L,N,0.1)
nf=st._integrator._nonlinear_fun
u=rng.normal(size=(3,N,N,N))
K=int(np.floor(2/3*(N//2)-1+1e-9))
k=np.fft.fftfreq(N,1/N); ks=np.meshgrid(k,k,k,indexing="ij")
mask=np.ones((N,N,N),bool)
for kk in ks: mask&=(np.abs(kk)<=K)
uh=np.fft.fftn(u,axes=(1,2,3))*mask; uK=np.real(np.fft.ifftn(uh,axes=(1,2,3)))
div=np.real(np.fft.ifftn(sum(1j*(2*np.pi/L)*ks[d]*uh[d] for d in range(3))))
Nu=np.asarray(ex.ifft(nf(ex.fft(jnp.asarray(u))),num_points=N))
print("mean N(u)",Nu.mean(axis=(1,2,3)),"mean(u div u)",(uK*div).mean(axis=(1,2,3)))
# (a) intent capture + taps on eqx modules
intents={}
def all_subclasses(c):
    out=set()
    for s in c.__subclasses__(): out.add(s); out|=all_subclasses(s)
    return out
for cls in all_subclasses(ex.BaseStepper):
    if "__init__" in cls.__dict__:
        orig=cls.__dict__["__init__"]
        def make(orig,cls):
            sig=inspect.signature(orig)
            @functools.wraps(orig)
            def init(self,*a,**kw):
                ba=sig.bind(self,*a,**kw); ba.apply_defaults()
                orig(self,*a,**kw)
                if type(self) is cls or id(self) not in intents:
                    intents[id(self)]=(type(self).__name__,{k:v for k,v in ba.arguments.items() if k!="self"})
            return init
        cls.__init__=make(orig,cls)
s=ex.stepper.generic.DifficultyLinearStepperSimple(2,12,difficulty=-1.5,order=1)
print(intents[id(s)])
s2=ex.stepper.Burgers(1,1.0,16,0.1,diffusivity=0.05)
print(intents[id(s2)][0], sorted(intents[id(s2)][1])[:5])
print("call ok",s2(jnp.ones((1,16))).shape, "pytree ok", len(jax.tree_util.tree_leaves(s2)))
import equinox as eqx
e=eqx.filter_vmap(lambda nu: ex.stepper.Burgers(1,1.0,16,0.1,diffusivity=nu))(jnp.array([0.1,0.2])); print("vmapped ctor ok with patched init")
# (c) coef_extraction tensor product & modes slices
N=8; g=np.asarray(ex.make_grid(2,2*np.pi,N))
u=3.0*np.cos(2*g[0])*np.sin(3*g[1])
c=np.asarray(ex.spectral.get_fourier_coefficients(jnp.asarray(u)[None],round=None))[0]
idx=np.argwhere(np.abs(c)>1e-9); print("nonzero idx",idx.tolist(),[complex(np.round(c[tuple(i)],6)) for i in idx])
for N in [6,7]:
    for D in [1,2]:
        sl=ex.spectral.get_modes_slices(D,N); wn=np.asarray(ex.spectral.build_wavenumbers(D,N))
        print("slices",D,N,[[np.unique(wn[d][s[1:]]).astype(int).tolist() for d in range(D)] for s in sl])
