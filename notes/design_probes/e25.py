import jax; jax.config.update("jax_enable_x64", True)
import jax.numpy as jnp, numpy as np, equinox as eqx
import exponax as ex
print(ex.__file__)
nus=jnp.array([0.0,0.3])
e=eqx.filter_vmap(lambda c: ex.stepper.generic.GeneralVorticityConvectionStepper(2,1.0,12,0.1,injection_scale=c))(nus); print("GenVort batched ok")
s=ex.build_ic_set(ex.ic.RandomSineWaves1d(1), num_points=16, num_samples=3, key=jax.random.PRNGKey(0)); print("sine ic set", s.shape)
# xy in 2D: derivative check both coords, and interpolator, incompressible
N=6; L=2.0
g = ex.make_grid(2,L,N,indexing="xy")
u = jnp.sin(2*jnp.pi*g[0:1]/L)*jnp.cos(4*jnp.pi*g[1:2]/L)
d = ex.derivative(u, L, indexing="xy")
print("d/dx0 err", float(jnp.abs(d[0]-(2*np.pi/L)*jnp.cos(2*jnp.pi*g[0]/L)*jnp.cos(4*jnp.pi*g[1]/L)).max()), "d/dx1 err", float(jnp.abs(d[1]+(4*np.pi/L)*jnp.sin(2*jnp.pi*g[0]/L)*jnp.sin(4*jnp.pi*g[1]/L)).max()))
fi = ex.FourierInterpolator(u, domain_extent=L, indexing="xy"); x=jnp.array([0.3,0.45]); print("interp", float(fi(x)[0]), float(np.sin(2*np.pi*0.3/L)*np.cos(4*np.pi*0.45/L)))
