import jax; jax.config.update("jax_enable_x64", True)
import jax.numpy as jnp, numpy as np, itertools, math
import exponax as ex
rng=np.random.default_rng(0)
# C17: single modes
bad=[]
cnt=0
for D in [1,2,3]:
  for N in ([8,9] if D<3 else [6,7]):
    g=np.asarray(ex.make_grid(D,2*np.pi,N))
    wn=np.asarray(ex.spectral.build_wavenumbers(D,N)).astype(int).reshape(D,-1).T
    for k in wn:
        a=rng.uniform(0.5,2); ph=rng.uniform(0,2*np.pi)
        if N%2==0 and np.any(np.abs(k)==N//2): ph=0.0  # Nyquist: only cos representable
        u=a*np.cos(sum(k[d]*g[d] for d in range(D))+ph)[None]
        r=np.linalg.norm(k); b=int(math.floor(r+0.5))
        for power in [False,True]:
            sp=np.asarray(ex.get_spectrum(jnp.asarray(u),power=power))[0]
            exp=np.zeros(N//2+1)
            if b<=N//2:
                if power: exp[b]=0.5*np.mean(u**2)
                else: exp[b]=a if np.any(k!=0) else abs(a*np.cos(ph))
            cnt+=1
            if np.abs(sp-exp).max()>1e-12: bad.append((D,N,tuple(k),power,sp.round(4).tolist(),exp.round(4).tolist()))
print("cases",cnt,"bad",len(bad))
for b in bad[:12]: print(b)
