import sys
import jax
if len(sys.argv)>1 and sys.argv[1]=="x64": jax.config.update("jax_enable_x64", True)
import jax.numpy as jnp, numpy as np
import exponax as ex
from exponax.etdrk import ETDRK1,ETDRK2,ETDRK3,ETDRK4
from exponax.nonlin_fun import ZeroNonlinearFun
zs = -np.concatenate([[0.0],10.0**np.arange(-12,16)])
L = jnp.asarray(zs,dtype=jnp.complex128 if jax.config.jax_enable_x64 else jnp.complex64).reshape(1,-1)
nfz=ZeroNonlinearFun(1,2*(L.shape[1]-1))
for cls in [ETDRK1,ETDRK2,ETDRK3,ETDRK4]:
    e=cls(1.0,L,nfz)
    bad={}
    for name in [n for n in vars(e) if n.startswith("_coef") or n.endswith("exp_term")]:
        a=np.asarray(getattr(e,name))
        nb=~np.isfinite(a)
        if nb.any(): bad[name]=zs[nb.reshape(-1)].tolist()
    print(cls.__name__, "dtype", getattr(e,"_coef_1").dtype, "nonfinite:", bad)
# imaginary axis too
L2 = jnp.asarray(1j*zs,dtype=L.dtype).reshape(1,-1)
for cls in [ETDRK1,ETDRK2,ETDRK3,ETDRK4]:
    e=cls(1.0,L2,nfz)
    bad={}
    for name in [n for n in vars(e) if n.startswith("_coef") or n.endswith("exp_term")]:
        a=np.asarray(getattr(e,name))
        nb=~np.isfinite(a)
        if nb.any(): bad[name]=zs[nb.reshape(-1)].tolist()
    print("imag",cls.__name__, "nonfinite:", bad)
