import jax; jax.config.update("jax_enable_x64", True)
import jax.numpy as jnp, numpy as np, itertools, math
import exponax as ex
rng=np.random.default_rng(0)
S=ex.stepper
worst={}
for D in [1,2,3]:
  for N in ([4,6,8,9] if D<3 else [4,6,5]):
    for trial in range(30):
        L=rng.uniform(0.5,5); dt=10**rng.uniform(-3,6)
        c=jnp.asarray(rng.normal(size=D)); 
        sts={"adv":S.Advection(D,L,N,dt,velocity=c),"disp":S.Dispersion(D,L,N,dt,dispersivity=c),"dispmix":S.Dispersion(D,L,N,dt,dispersivity=c,advect_on_diffusion=True),
             "diff":S.Diffusion(D,L,N,dt,diffusivity=abs(float(c[0]))+1e-3),"advdiff":S.AdvectionDiffusion(D,L,N,dt,velocity=c,diffusivity=0.01),
             "hyp":S.HyperDiffusion(D,L,N,dt),"hypmix":S.HyperDiffusion(D,L,N,dt,diffuse_on_diffuse=True),
             "gen":ex.stepper.generic.GeneralLinearStepper(D,L,N,dt,linear_coefficients=(-0.1,0.3,0.02,-0.004,-0.001,0.0002))}
        kind=trial%3
        u=rng.normal(size=(1,)+(N,)*D)
        if kind==1: # pure nyquist-ish checkerboard
            g=np.indices((N,)*D).sum(0); u=((-1.0)**g)[None]+0.1*u
        for name,st in sts.items():
            o=st(jnp.asarray(u)); r=float(jnp.linalg.norm(o)/np.linalg.norm(u))
            key=(name,D,"even" if N%2==0 else "odd")
            worst[key]=max(worst.get(key,0),r)
for k,v in sorted(worst.items()): print(k,"max ratio-1 = %.3e"%(v-1))
