import jax; jax.config.update("jax_enable_x64", True)
import jax.numpy as jnp, numpy as np
import exponax as ex
f=lambda u: {"a":u["a"]*2+1,"b":(u["b"][0]+u["a"].sum(),)}
u0={"a":jnp.arange(3),"b":(jnp.array(5),)}
for n in [0,1,3]:
    for inc in [False,True]:
        try:
            tr=ex.rollout(f,n,include_init=inc)(u0); print("rollout n",n,inc,jax.tree_util.tree_map(lambda x:x.shape,tr), tr["a"].dtype)
        except Exception as e: print("rollout n",n,inc,"ERR",type(e).__name__,str(e)[:100])
    try: print("repeat n",n, ex.repeat(f,n)(u0))
    except Exception as e: print("repeat ERR",type(e).__name__,str(e)[:100])
g=lambda u,a: u*10+a
aux=jnp.arange(1,5)
print(ex.rollout(g,4,takes_aux=True,constant_aux=False)(jnp.array(0),aux))
print(ex.rollout(g,4,takes_aux=True,constant_aux=True)(jnp.array(0),jnp.array(7)))
print(ex.repeat(g,4,takes_aux=True,constant_aux=False)(jnp.array(0),aux))
tr=jnp.arange(6)[:,None]*jnp.ones((1,2))
print(ex.stack_sub_trajectories(tr,6).shape, ex.stack_sub_trajectories(tr,1).shape, ex.stack_sub_trajectories(tr,4)[...,0])
try: ex.stack_sub_trajectories(tr,7)
except Exception as e: print("sub_len>T",type(e).__name__)
try: print(ex.stack_sub_trajectories(tr,0).shape)
except Exception as e: print("sub_len 0",type(e).__name__,str(e)[:80])
# RepeatedStepper
st=ex.stepper.Burgers(1,1.0,16,0.01); r=ex.RepeatedStepper(st,5)
u=jnp.sin(2*jnp.pi*ex.make_grid(1,1.0,16))
v=u
for _ in range(5): v=st(v)
print("repeated vs loop",float(jnp.abs(r(u)-v).max()), r.dt)
r0=ex.RepeatedStepper(st,0); print("repeated 0", float(jnp.abs(r0(u)-u).max()))
