import jax; jax.config.update("jax_enable_x64", True)
import jax.numpy as jnp, numpy as np, io, contextlib
import exponax as ex
S=ex.stepper; G=ex.stepper.generic; R=S.reaction
rng=np.random.default_rng(0)
def cmp(a,b,u): 
    x=a(u); y=b(u); return float(jnp.abs(x-y).max()/jnp.maximum(1e-300,jnp.abs(x).max()))
for D,N in [(1,16),(2,9),(2,10),(3,7)]:
  for order in [1,2,3,4]:
    L=2.7; dt=0.03
    u1=jnp.asarray(0.5*rng.normal(size=(1,)+(N,)*D)); uD=jnp.asarray(0.5*rng.normal(size=(D,)+(N,)*D))
    out={}
    with contextlib.redirect_stdout(io.StringIO()):
        out["burgers"]=cmp(S.Burgers(D,L,N,dt,diffusivity=0.05,convection_scale=1.3,order=order), G.GeneralConvectionStepper(D,L,N,dt,linear_coefficients=(0,0,0.05),convection_scale=1.3,order=order),uD)
        out["kdv"]=cmp(S.KortewegDeVries(D,L,N,dt,order=order), G.GeneralConvectionStepper(D,L,N,dt,linear_coefficients=(0,0,0,-1.0,-0.01),convection_scale=-6.0,order=order),uD)
        out["ksc"]=cmp(S.KuramotoSivashinskyConservative(D,L,N,dt,order=order), G.GeneralConvectionStepper(D,L,N,dt,linear_coefficients=(0,0,-1,0,-1),convection_scale=1.0,conservative=True,order=order),uD)
        out["ks"]=cmp(S.KuramotoSivashinsky(D,L,N,dt,order=order), G.GeneralGradientNormStepper(D,L,N,dt,linear_coefficients=(0,0,-1,0,-1),gradient_norm_scale=1.0,order=order),u1)
        out["fisher"]=cmp(R.FisherKPP(D,L,N,dt,diffusivity=0.02,reactivity=0.8,order=order), G.GeneralPolynomialStepper(D,L,N,dt,linear_coefficients=(0.8/D,0,0.02),polynomial_coefficients=(0,0,-0.8),order=order),u1)
        out["fisher_a0_nodiv"]=cmp(R.FisherKPP(D,L,N,dt,diffusivity=0.02,reactivity=0.8,order=order), G.GeneralPolynomialStepper(D,L,N,dt,linear_coefficients=(0.8,0,0.02),polynomial_coefficients=(0,0,-0.8),order=order),u1)
        # normalized
        lc=(0.1,-0.4,0.03,0.002,-0.0005)
        nl=G.normalize_coefficients(lc,domain_extent=L,dt=dt)
        out["norm_conv"]=cmp(G.GeneralConvectionStepper(D,L,N,dt,linear_coefficients=lc,convection_scale=1.3,order=order), G.NormalizedConvectionStepper(D,N,normalized_linear_coefficients=nl,normalized_convection_scale=G.normalize_convection_scale(1.3,domain_extent=L,dt=dt),order=order),uD)
        out["norm_gn"]=cmp(G.GeneralGradientNormStepper(D,L,N,dt,linear_coefficients=lc,gradient_norm_scale=0.7,order=order), G.NormalizedGradientNormStepper(D,N,normalized_linear_coefficients=nl,normalized_gradient_norm_scale=G.normalize_gradient_norm_scale(0.7,domain_extent=L,dt=dt),order=order),u1)
        out["norm_poly"]=cmp(G.GeneralPolynomialStepper(D,L,N,dt,linear_coefficients=lc,polynomial_coefficients=(0.1,0.2,-0.5),order=order), G.NormalizedPolynomialStepper(D,N,normalized_linear_coefficients=nl,normalized_polynomial_coefficients=G.normalize_polynomial_scales((0.1,0.2,-0.5),dt=dt),order=order),u1)
        from exponax.stepper.generic._utils import reduce_normalized_nonlinear_scales_to_difficulty
        nn=(0.3*dt, -0.9*dt/L, 0.4*dt/L**2)
        out["norm_nonlin"]=cmp(G.GeneralNonlinearStepper(D,L,N,dt,linear_coefficients=lc,nonlinear_coefficients=(0.3,-0.9,0.4),order=order), G.NormalizedNonlinearStepper(D,N,normalized_linear_coefficients=nl,normalized_nonlinear_coefficients=nn,order=order),u1)
        dl=G.reduce_normalized_coefficients_to_difficulty(nl,num_spatial_dims=D,num_points=N)
        out["diff_nonlin"]=cmp(G.NormalizedNonlinearStepper(D,N,normalized_linear_coefficients=nl,normalized_nonlinear_coefficients=nn,order=order), G.DifficultyNonlinearStepper(D,N,linear_difficulties=dl,nonlinear_difficulties=reduce_normalized_nonlinear_scales_to_difficulty(nn,num_spatial_dims=D,num_points=N,maximum_absolute=1.7),maximum_absolute=1.7,order=order),u1)
    print(D,N,order,{k:"%.1e"%v for k,v in out.items()})
