import sys; sys.path.insert(0,"/tmp/explore/deps")
import jax
X64 = len(sys.argv)>1 and sys.argv[1]=="x64"
if X64: jax.config.update("jax_enable_x64", True)
import jax.numpy as jnp, numpy as np, mpmath as mp, time
import exponax as ex
from exponax.etdrk import ETDRK1,ETDRK2,ETDRK3,ETDRK4
from exponax.nonlin_fun import ZeroNonlinearFun
mp.mp.dps=200
def phis(z):
    z=mp.mpc(complex(z))
    if z==0:
        return dict(p1=mp.mpf(1),p1h=mp.mpf(1)/2, c2=mp.mpf(1)/2, a=mp.mpf(1)/6,b=mp.mpf(1)/6*1,c=mp.mpf(1)/6)  # placeholders; computed by limit below
    e=mp.exp(z); eh=mp.exp(z/2)
    return dict(
      p1=(e-1)/z, p1h=(eh-1)/z, c2=(e-1-z)/z**2,
      a=(-4-z+e*(4-3*z+z**2))/z**3, b=(2+z+e*(-2+z))/z**3, c=(-4-3*z-z**2+e*(4-z))/z**3)
def phis0():
    h=mp.mpf(1)/2; s=mp.mpf(1)/6
    return dict(p1=mp.mpf(1),p1h=h,c2=h,a=s,b=s,c=s)
rng=np.random.default_rng(0)
zs=[0j]
zs+= [-(10.0**e) for e in np.linspace(-9,9,37)] + [10.0**e for e in np.linspace(-9,1.3,12)]
zs+= [1j*s*(10.0**e) for e in np.linspace(-9,6,31) for s in (1,-1)]
zs+= [(10.0**rng.uniform(-6,6))*np.exp(1j*rng.uniform(np.pi/2,3*np.pi/2)) for _ in range(200)]
zs=np.array(zs,dtype=complex)
cd = jnp.complex128 if X64 else jnp.complex64
L=jnp.asarray(zs,dtype=cd).reshape(1,-1)
nfz=ZeroNonlinearFun(1,2*(L.shape[1]-1))
dt=1.0
t0=time.time()
ref=[phis(z) if z!=0 else phis0() for z in np.asarray(L).reshape(-1)]   # use the dtype-rounded z!
print("mpmath time %.2fs for %d points"%(time.time()-t0,len(zs)))
def arr(key,mult=1.0): return np.array([complex(r[key])*mult for r in ref])
checks={
 "ETDRK1":{"_coef_1":arr("p1")},
 "ETDRK2":{"_coef_1":arr("p1"),"_coef_2":arr("c2")},
 "ETDRK3":{"_coef_1":arr("p1h"),"_coef_2":arr("p1"),"_coef_3":arr("a"),"_coef_4":arr("b",4.0),"_coef_5":arr("c")},
 "ETDRK4":{"_coef_1":arr("p1h"),"_coef_4":arr("a"),"_coef_5":arr("b"),"_coef_6":arr("c")},
}
eps=np.finfo(np.float64 if X64 else np.float32).eps
for cls in [ETDRK1,ETDRK2,ETDRK3,ETDRK4]:
    e=cls(dt,L,nfz)
    for name,r in checks[cls.__name__].items():
        got=np.asarray(getattr(e,name)).reshape(-1).astype(complex)
        zz=np.asarray(L).reshape(-1).astype(complex)
        err=np.abs(got-r)/np.maximum(np.abs(r),1e-300)
        g=1+np.abs(zz)            # amplification of exp argument rounding
        ratio=err/(eps*g)
        i=np.argmax(ratio)
        # also pure relative
        print(cls.__name__,name,"max relerr %.2e at z=%s ; max err/(eps*(1+|z|)) = %.1f at z=%s"%(err.max(),zz[np.argmax(err)],ratio.max(),zz[i]))
