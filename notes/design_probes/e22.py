import jax; jax.config.update("jax_enable_x64", True)
import jax.numpy as jnp, numpy as np, equinox as eqx, functools
import exponax as ex
log=[]
def rec(i,u): log.append((int(i),float(np.asarray(u).sum())))
def f(u):
    jax.debug.callback(rec, 0, u, ordered=True)
    return u*2
for name,run in [("scan ordered", lambda: ex.rollout(f,4)(jnp.ones(3))),("vmap ordered", lambda: jax.vmap(f)(jnp.ones((2,3)))),("vmap(scan) ordered", lambda: jax.vmap(ex.rollout(f,3))(jnp.ones((2,3)))),("grad ordered",lambda: jax.grad(lambda v: f(v).sum())(jnp.ones(3)))]:
    log.clear()
    try:
        run(); jax.effects_barrier(); print(name,"OK",log)
    except Exception as e: print(name,"ERR",type(e).__name__,str(e)[:120])
# unordered in scan: is order preserved in practice?
def g(u):
    jax.debug.callback(rec, 0, u, ordered=False); return u*2
log.clear(); ex.rollout(g,6)(jnp.ones(3)); jax.effects_barrier(); print("scan unordered",log)
# io_callback alternative & passing step index via carry
