import jax; jax.config.update("jax_enable_x64", True)
import jax.numpy as jnp, numpy as np
import exponax as ex
rng=np.random.default_rng(0)
for N in [9,10,12]:
    st=ex.stepper.NavierStokesVorticity(2,2.0,N,0.05,order=3)
    w=jnp.asarray(rng.normal(size=(1,N,N)))
    # nyquist-free
    wh=np.fft.fft2(np.asarray(w[0])); k=np.fft.fftfreq(N,1/N)
    if N%2==0: wh[np.abs(k)==N//2,:]=0; wh[:,np.abs(k)==N//2]=0
    w=jnp.asarray(np.real(np.fft.ifft2(wh)))[None]
    a=st(w)
    plus=float(jnp.abs(st(jnp.swapaxes(w,1,2))-jnp.swapaxes(a,1,2)).max())
    minus=float(jnp.abs(st(-jnp.swapaxes(w,1,2))+jnp.swapaxes(a,1,2)).max())
    print(N,"scalar rule err %.2e  pseudo-scalar rule err %.2e"%(plus,minus))
    # energy / enstrophy neutrality of nonlinear term on band-limited state
    nf=st._integrator._nonlinear_fun
    K=int(np.floor(2/3*(N//2)-1+1e-9))
    mask=(np.abs(k)[:,None]<=K)&(np.abs(k)[None,:]<=K)
    whb=np.fft.fft2(np.asarray(w[0]))*mask; wb=np.real(np.fft.ifft2(whb))
    Nw=np.asarray(ex.ifft(nf(ex.fft(jnp.asarray(wb)[None])),num_points=N))[0]
    k2=(2*np.pi/2.0)**2*(k[:,None]**2+k[None,:]**2); inv=np.where(k2==0,0,-1/np.where(k2==0,1,k2))
    psi=np.real(np.fft.ifft2(inv*whb))
    print("   K=%d <w,N>=%.2e <psi,N>=%.2e  |N|=%.2e"%(K,np.sum(wb*Nw),np.sum(psi*Nw),np.abs(Nw).max()))
# 3D axis permutation for NS3 and div-free mean conservation
N=9
st=ex.stepper.NavierStokesVelocity(3,2.0,N,0.05,order=2)
u=rng.normal(size=(3,N,N,N))
from exponax.nonlin_fun import Leray
D_=ex.spectral.build_derivative_operator(3,2.0,N)
P=Leray(3,N,derivative_operator=D_)
u=ex.ifft(P(ex.fft(jnp.asarray(u))),num_points=N)
a=st(u)
for perm in [(1,0,2),(2,1,0),(1,2,0)]:
    up=jnp.transpose(u,(0,)+tuple(p+1 for p in perm))[jnp.array(perm)]
    ap=jnp.transpose(a,(0,)+tuple(p+1 for p in perm))[jnp.array(perm)]
    print("NS3 perm",perm,"err %.2e"%float(jnp.abs(st(up)-ap).max()))
print("NS3 divfree mean drift %.2e"%float(jnp.abs(a.mean(axis=(1,2,3))-u.mean(axis=(1,2,3))).max()), "energy work <u,N(u)> band:", )
