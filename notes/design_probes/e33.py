import jax; jax.config.update("jax_enable_x64", True)
import jax.numpy as jnp, numpy as np, itertools
import exponax as ex
from exponax.nonlin_fun import Leray
rng=np.random.default_rng(0)
def kgrid(D,N): return np.meshgrid(*[np.fft.fftfreq(N,1/N)]*D,indexing="ij")
def nyq_free(u,D,N):
    uh=np.fft.fftn(u,axes=tuple(range(1,D+1)))
    if N%2==0:
        m=np.zeros((N,)*D,bool)
        for k in kgrid(D,N): m|=(np.abs(k)==N//2)
        uh[:,m]=0
    return np.real(np.fft.ifftn(uh,axes=tuple(range(1,D+1))))
def div(u,D,N,L):
    uh=np.fft.fftn(u,axes=tuple(range(1,D+1))); ks=kgrid(D,N)
    return np.real(np.fft.ifftn(sum(1j*2*np.pi/L*ks[d]*uh[d] for d in range(D))))
w={}
for D in [2,3]:
  for N in ([7,8] if D==2 else [6,7]):
    L=1.7
    u=nyq_free(rng.normal(size=(D,)+(N,)*D),D,N)
    m=np.asarray(ex.spectral.make_incompressible(jnp.asarray(u)))
    Dop=ex.spectral.build_derivative_operator(D,L,N); P=Leray(D,N,derivative_operator=Dop)
    l=np.asarray(ex.ifft(P(ex.fft(jnp.asarray(u))),num_points=N))
    w[("mi_div",D,N)]=np.abs(div(m,D,N,L)).max(); w[("leray_div",D,N)]=np.abs(div(l,D,N,L)).max(); w[("agree",D,N)]=np.abs(m-l).max()
    w[("idem",D,N)]=np.abs(np.asarray(ex.spectral.make_incompressible(jnp.asarray(m)))-m).max()
    # with Nyquist content (white noise): Leray in Fourier space
    un=rng.normal(size=(D,)+(N,)*D)
    ph=P(ex.fft(jnp.asarray(un))); 
    dd=jnp.sum(Dop*ph,axis=0); w[("leray_div_noise_spectral",D,N)]=float(jnp.abs(dd).max()/jnp.abs(ph).max())
for N in [6,9]:
    for cls,kw in [(ex.stepper.NavierStokesVelocity,{}),(ex.stepper.KolmogorovFlowVelocity,{"injection_mode":1,"drag":-0.1})]:
        for order in [1,4]:
            st=cls(3,2.0,N,0.05,order=order,**kw)
            u=np.asarray(ex.spectral.make_incompressible(jnp.asarray(nyq_free(rng.normal(size=(3,N,N,N)),3,N))))
            tr=np.asarray(ex.rollout(st,20)(jnp.asarray(u)))
            w[("rollout_div",cls.__name__,N,order)]=max(np.abs(div(t,3,N,2.0)).max() for t in tr)
for k,v in w.items(): print(k,"%.2e"%v)
