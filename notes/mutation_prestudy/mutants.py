# name -> (file, old, new, property)
M = {
 "M01_cross_sign": ("exponax/nonlin_fun/_projected_convection.py", "c2 = a[2] * b[0] - a[0] * b[2]", "c2 = a[0] * b[2] - a[2] * b[0]", "C03/C09/C10"),
 "M02_dealias_cutoff": ("exponax/nonlin_fun/_base.py", "cutoff=start_of_aliased_modes - 1,", "cutoff=start_of_aliased_modes,", "C03"),
 "M03_etdrk3_c4": ("exponax/etdrk/_etdrk_3.py", "c4 = ((4.0 * (2.0 + lr + exp_lr * (-2 + lr))) / lr**3).real", "c4 = ((2.0 * (2.0 + lr + exp_lr * (-2 + lr))) / lr**3).real", "C02/C09"),
 "M04_dispersion_mix_sign": ("exponax/stepper/_dispersion.py", "linear_operator = advection_operator * laplace_operator", "linear_operator = -advection_operator * laplace_operator", "C01"),
 "M05_gradnorm_half": ("exponax/nonlin_fun/_gradient_norm.py", "u_gradient_norm_squared_hat = 0.5 * self.fft(u_gradient_norm_squared)", "u_gradient_norm_squared_hat = self.fft(u_gradient_norm_squared)", "C03/C13"),
 "M06_vort_axis": ("exponax/nonlin_fun/_vorticity_convection.py", "v_hat = -self.derivative_operator[0:1] * stream_function_hat", "v_hat = -self.derivative_operator[1:2] * stream_function_hat", "C03/C08/C09"),
 "M07_injection_sign": ("exponax/nonlin_fun/_vorticity_convection.py", "            -injection_mode\n", "            injection_mode\n", "C12"),
 "M08_spectrum_bin_edge": ("exponax/_spectral.py", "mask = (wavenumbers_norm[0] >= lower_limit) & (\n            wavenumbers_norm[0] < upper_limit\n        )", "mask = (wavenumbers_norm[0] > lower_limit) & (\n            wavenumbers_norm[0] <= upper_limit\n        )", "C17"),
 "M09_interp_scaling": ("exponax/_interpolation.py", "                mode=\"reconstruction\",\n                indexing=indexing,", "                mode=\"coef_extraction\",\n                indexing=indexing,", "C15"),
 "M10_fourier_metric_scaling": ("exponax/metrics/_fourier.py", "        mode=\"reconstruction\",\n    )\n\n    scale = ", "        mode=\"norm_compensation\",\n    )\n\n    scale = ", "C16"),
 "M11_difficulty_formula": ("exponax/stepper/generic/_utils.py", "2 ** (j - 1)", "2**j", "C13"),
 "M12_wave_drift": ("exponax/stepper/_wave.py", "u_hat_next = u_hat_next.at[h_dc_idx].add(self.dt * u_hat[v_dc_idx])", "u_hat_next = u_hat_next.at[h_dc_idx].add(0.5 * self.dt * u_hat[v_dc_idx])", "C01"),
 "M13_leray_guard": ("exponax/nonlin_fun/_leray.py", "laplace_operator != 0, 1.0 / laplace_operator, 0.0", "laplace_operator != 0, 1.0 / laplace_operator, 1.0", "C10/C09"),
 "M14_diffusion_offdiag": ("exponax/stepper/_diffusion.py", "\"ij,ij...->...\",\n            self.diffusivity,", "\"ii,ii...->...\",\n            self.diffusivity,", "C01"),
 "M15_conv_cons_axis": ("exponax/nonlin_fun/_convection.py", "            self.derivative_operator[None, :] * u_outer_product_hat,\n            axis=1,", "            self.derivative_operator[:, None] * u_outer_product_hat,\n            axis=1,", "C03/C08"),
 "M16_repeat_offbyone": ("exponax/_repeated_stepper.py", "return repeat(self.stepper.step_fourier, self.num_sub_steps)(u_hat)", "return repeat(self.stepper.step_fourier, max(self.num_sub_steps - 1, 1))(u_hat)", "C14"),
}
