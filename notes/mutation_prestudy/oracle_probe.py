import sys, io, contextlib, math
import jax; jax.config.update("jax_enable_x64", True)
import jax.numpy as jnp, numpy as np
import exponax as ex
name=sys.argv[1]
rng=np.random.default_rng(0)
def kgrid(D,N): return np.meshgrid(*[np.fft.fftfreq(N,1/N)]*D,indexing="ij")
def F(u,D): return np.fft.fftn(u,axes=tuple(range(-D,0)))
def iF(uh,D): return np.fft.ifftn(uh,axes=tuple(range(-D,0)))
def band(D,N,K):
    m=np.ones((N,)*D,bool)
    for k in kgrid(D,N): m&=(np.abs(k)<=K)
    return m
def up(uh,D,N,M):
    out=np.zeros(uh.shape[:-D]+(M,)*D,complex); idx=[np.fft.fftfreq(N,1/N).astype(int)%M]*D
    out[(Ellipsis,)+np.ix_(*idx)]=uh; return out*(M/N)**D
def down(vh,D,N,M):
    idx=[np.fft.fftfreq(N,1/N).astype(int)%M]*D; return vh[(Ellipsis,)+np.ix_(*idx)]*(N/M)**D
def aliasfree(op,u,D,N,L,K):
    M=4*N; uh=F(u,D)*band(D,N,K); Uh=up(uh,D,N,M); ks=[2*np.pi/L*k for k in kgrid(D,M)]
    d=lambda fh,ax,o=1: fh*(1j*ks[ax])**o
    r=op(Uh,lambda fh: np.real(iF(fh,D)),lambda f: F(f,D),d,ks)
    return down(r,D,N,M)*band(D,N,K)
def full(rh,D,N): return F(np.fft.irfftn(rh,s=(N,)*D,axes=tuple(range(-D,0))),D)
def K23(N): return math.floor(2/3*(N//2)-1+1e-9)
out={}
if name.startswith("M01"):
    D=3;N=12;L=2.0
    nf=ex.nonlin_fun.ProjectedConvection3d(D,N,derivative_operator=ex.spectral.build_derivative_operator(D,L,N))
    u=rng.normal(size=(3,N,N,N))
    def op(Uh,i,f,d,ks):
        U=i(Uh); W=np.stack([i(d(Uh[2],1)-d(Uh[1],2)),i(d(Uh[0],2)-d(Uh[2],0)),i(d(Uh[1],0)-d(Uh[0],1))])
        C=f(np.cross(U,W,axis=0)); k2=sum(k**2 for k in ks); k2s=np.where(k2==0,1,k2)
        div=sum(ks[a]*C[a] for a in range(3)); return np.stack([C[a]-ks[a]*div/k2s for a in range(3)])
    ref=aliasfree(op,u,D,N,L,K23(N)); got=full(np.asarray(nf(jnp.asarray(np.fft.rfftn(u,axes=(1,2,3))))),D,N)
    out["alias-free oracle rel err"]=np.abs(got-ref).max()/np.abs(ref).max()
elif name.startswith("M02"):
    for N in [12,13,18]:
        D=1;L=1.0; nf=ex.nonlin_fun.PolynomialNonlinearFun(D,N,dealiasing_fraction=2/3,coefficients=(0.,0.,1.))
        u=rng.normal(size=(1,N)); ref=aliasfree(lambda Uh,i,f,d,ks: f(i(Uh)**2),u,D,N,L,K23(N)); got=full(np.asarray(nf(jnp.asarray(np.fft.rfft(u)))),D,N)
        out["poly2 N=%d abs err/||u||^2"%N]=np.abs(got-ref).max()/ (N*np.abs(u).max()**2)
elif name.startswith("M03"):
    from exponax.etdrk import ETDRK3; from exponax.nonlin_fun import ZeroNonlinearFun
    z=np.array([-0.5,-3.0,-40.0]); e=ETDRK3(1.0,jnp.asarray(z,dtype=complex).reshape(1,-1),ZeroNonlinearFun(1,4))
    b=(2+z+np.exp(z)*(-2+z))/z**3; out["coef_4 vs 4*b(z) rel err"]=np.abs(np.asarray(e._coef_4).real.reshape(-1)-4*b).max()/np.abs(4*b).max()
elif name.startswith("M04") or name.startswith("M14") or name.startswith("M12"):
    D=2;N=8;L=1.7;dt=0.3
    ks=[2*np.pi/L*k for k in np.asarray(ex.spectral.build_wavenumbers(D,N))]
    if name.startswith("M04"):
        c=np.array([0.3,-0.2]); st=ex.stepper.Dispersion(D,L,N,dt,dispersivity=jnp.asarray(c),advect_on_diffusion=True); sym=(c[0]*1j*ks[0]+c[1]*1j*ks[1])*(-(ks[0]**2+ks[1]**2))
        m=np.asarray(st.step_fourier(jnp.ones((1,N,N//2+1),dtype=complex)))[0]; out["multiplier err"]=np.abs(m-np.exp(dt*sym)).max()
    elif name.startswith("M14"):
        A=np.array([[0.05,0.02],[0.02,0.03]]); st=ex.stepper.Diffusion(D,L,N,dt,diffusivity=jnp.asarray(A)); sym=-(A[0,0]*ks[0]**2+2*A[0,1]*ks[0]*ks[1]+A[1,1]*ks[1]**2)
        m=np.asarray(st.step_fourier(jnp.ones((1,N,N//2+1),dtype=complex)))[0]; out["multiplier err"]=np.abs(m-np.exp(dt*sym)).max()
    else:
        st=ex.stepper.Wave(D,L,N,dt); u=jnp.stack([jnp.zeros((N,N)),jnp.ones((N,N))*0.7]); o=st(u); out["DC drift err"]=float(jnp.abs(o[0]-0.7*dt).max())
elif name.startswith("M05"):
    D=2;N=12;L=1.3; nf=ex.nonlin_fun.GradientNormNonlinearFun(D,N,derivative_operator=ex.spectral.build_derivative_operator(D,L,N),dealiasing_fraction=2/3)
    u=rng.normal(size=(1,N,N))
    def op(Uh,i,f,d,ks):
        g=sum(i(d(Uh,a))**2 for a in range(D)); g=g-g.mean(axis=(-2,-1),keepdims=True); return f(-0.5*g)
    ref=aliasfree(op,u,D,N,L,K23(N)); got=full(np.asarray(nf(jnp.asarray(np.fft.rfftn(u,axes=(1,2))))),D,N); out["alias-free oracle rel err"]=np.abs(got-ref).max()/np.abs(ref).max()
elif name.startswith("M06"):
    D=2;N=12;L=1.3; nf=ex.nonlin_fun.VorticityConvection2d(D,N,derivative_operator=ex.spectral.build_derivative_operator(D,L,N),dealiasing_fraction=2/3)
    u=rng.normal(size=(1,N,N))
    def op(Uh,i,f,d,ks):
        k2=-(ks[0]**2+ks[1]**2); inv=np.where(k2==0,0,1/np.where(k2==0,1,k2)); psi=inv*Uh
        return f(-(i(d(psi,1))*i(d(Uh,0))-i(d(psi,0))*i(d(Uh,1))))
    ref=aliasfree(op,u,D,N,L,K23(N)); got=full(np.asarray(nf(jnp.asarray(np.fft.rfftn(u,axes=(1,2))))),D,N); out["alias-free oracle rel err"]=np.abs(got-ref).max()/np.abs(ref).max()
elif name.startswith("M07"):
    L=2*np.pi;N=12;k=2;g=0.7;nu=0.05;lam=-0.1;dt=0.01;n=10
    st=ex.stepper.KolmogorovFlowVorticity(2,L,N,dt,diffusivity=nu,drag=lam,injection_mode=k,injection_scale=g,order=2); u=np.asarray(ex.repeat(st,n)(jnp.zeros((1,N,N))))
    x=np.arange(N)*L/N; kk=2*np.pi*k/L; sig=lam-nu*kk**2; ref=-kk*g*(np.exp(sig*n*dt)-1)/sig*np.cos(kk*x)[None,None,:]*np.ones((1,N,1)); out["laminar rel err (L=2pi)"]=np.abs(u-ref).max()/np.abs(ref).max()
elif name.startswith("M08"):
    bad=0;cnt=0
    for D,N in [(2,8),(2,9),(3,6)]:
        g=np.asarray(ex.make_grid(D,2*np.pi,N)); wn=np.asarray(ex.spectral.build_wavenumbers(D,N)).astype(int).reshape(D,-1).T
        for k in wn:
            if N%2==0 and np.any(np.abs(k)==N//2): continue
            u=np.cos(sum(k[d]*g[d] for d in range(D))+0.3)[None]; sp=np.asarray(ex.get_spectrum(jnp.asarray(u),power=False))[0]
            b=int(math.floor(np.linalg.norm(k)+0.5)); e=np.zeros(N//2+1)
            if b<=N//2: e[b]=1.0 if np.any(k!=0) else abs(np.cos(0.3))
            cnt+=1; bad+=np.abs(sp-e).max()>1e-12
    out["single-mode bin mismatches"]=bad; out["cases"]=cnt
elif name.startswith("M09"):
    D=2;N=9;L=1.3; x=np.stack(np.meshgrid(*[np.arange(N)*L/N]*D,indexing="ij")); f=lambda x: 0.7*np.cos(2*np.pi/L*(2*x[0]-3*x[1])+0.4)+0.2*np.sin(2*np.pi/L*x[0])
    fi=ex.FourierInterpolator(jnp.asarray(f(x))[None],domain_extent=L); q=np.array([0.123,0.77]); out["interp err off-grid"]=abs(float(fi(jnp.asarray(q))[0])-f(q))
elif name.startswith("M10"):
    u=jnp.asarray(rng.normal(size=(1,9,9))); v=jnp.asarray(rng.normal(size=(1,9,9))); a=float(ex.metrics.MSE(u,v,domain_extent=2.0)); b=float(ex.metrics.fourier_MSE(u,v,domain_extent=2.0)); out["parseval rel err"]=abs(a-b)/a
elif name.startswith("M11"):
    G=ex.stepper.generic; al=(0.1,0.2,0.3,0.4); N=10;D=2
    got=G.reduce_normalized_coefficients_to_difficulty(al,num_spatial_dims=D,num_points=N); doc=(al[0],)+tuple(a*N**j*2**(j-1)*D for j,a in enumerate(al) if j>0)
    out["documented formula rel err"]=max(abs(x-y)/abs(y) for x,y in zip(got,doc)); back=G.extract_normalized_coefficients_from_difficulty(got,num_spatial_dims=D,num_points=N); out["inverse err"]=max(abs(x-y) for x,y in zip(back,al))
elif name.startswith("M13"):
    D=3;N=8;L=2.0; P=ex.nonlin_fun.Leray(D,N,derivative_operator=ex.spectral.build_derivative_operator(D,L,N)); u=rng.normal(size=(3,N,N,N)); uh=jnp.asarray(np.fft.rfftn(u,axes=(1,2,3)))
    ph=np.asarray(P(uh)); out["mean change"]=np.abs(ph[:,0,0,0]-np.asarray(uh)[:,0,0,0]).max()
elif name.startswith("M15"):
    D=2;N=12;L=1.3; nf=ex.nonlin_fun.ConvectionNonlinearFun(D,N,derivative_operator=ex.spectral.build_derivative_operator(D,L,N),conservative=True); u=rng.normal(size=(2,N,N))
    def op(Uh,i,f,d,ks):
        U=i(Uh); return np.stack([-0.5*sum(d(f(U[c]*U[j]),j) for j in range(D)) for c in range(D)])
    ref=aliasfree(op,u,D,N,L,K23(N)); got=full(np.asarray(nf(jnp.asarray(np.fft.rfftn(u,axes=(1,2))))),D,N); out["alias-free oracle rel err"]=np.abs(got-ref).max()/np.abs(ref).max()
elif name.startswith("M16"):
    st=ex.stepper.Burgers(1,1.0,16,0.01); r=ex.RepeatedStepper(st,5); u=jnp.sin(2*jnp.pi*ex.make_grid(1,1.0,16)); v=u
    for _ in range(5): v=st(v)
    out["repeated vs loop"]=float(jnp.abs(r(u)-v).max())
print(name, ex.__file__.split("/")[-3], {k:(float("%.3g"%v) if isinstance(v,(float,np.floating)) else int(v)) for k,v in out.items()})
