#!/bin/bash
name=$1; nw=${2:-7}
d=/var/tmp/mutstudy/$name
rm -rf $d; mkdir -p $d; cp -r /repo/exponax $d/exponax; cp -r /repo/tests $d/tests
cd /var/tmp/mutstudy
python3 - "$name" <<'PY'
import sys
sys.path.insert(0,"/var/tmp/mutstudy")
from mutants import M
name=sys.argv[1]; f,old,new,prop=M[name]
p="/var/tmp/mutstudy/%s/%s"%(name,f); s=open(p).read()
assert s.count(old)>=1,(name,"pattern not found")
open(p,"w").write(s.replace(old,new))
PY
[ $? -ne 0 ] && { echo "$name PATCHFAIL"; exit 1; }
cd $d && PYTHONPATH=$d /venv/bin/python -m pytest -q -ra -p no:cacheprovider --timeout=900 -n $nw tests > $d/out.txt 2>&1
res=$(grep -aE "[0-9]+ passed" $d/out.txt | tail -1)
nf=$(grep -a "^FAILED" $d/out.txt | grep -vc "TestGradientNormAdditional::test_2d")
echo "$name | $res | new_failures=$nf" >> /var/tmp/mutstudy/results.txt
grep -a "^FAILED" $d/out.txt | grep -v "TestGradientNormAdditional::test_2d" | cut -c1-150 > /var/tmp/mutstudy/$name.failed
rm -rf $d/tests $d/out.txt
