"""Worker process: runs a list of cases of one property under its monitors."""
import importlib, json, os, sys, time, traceback


def main():
    spec = json.load(open(sys.argv[1]))
    out_path = sys.argv[2]
    from rv import env
    from rv.bus import Bus

    ex = env.bootstrap(x64=spec.get("x64", True))
    mod = importlib.import_module(f"rv.props.{spec['prop'].lower()}")
    bus = Bus(spec["prop"])
    repo_root = os.path.realpath(env.REPO)
    deadline = time.time() + spec.get("budget_s", 1e9)
    done = 0
    not_run = 0
    for case in spec["cases"]:
        if time.time() > deadline:
            not_run += 1
            continue
        bus.case = case
        try:
            mod.run_case(case, bus, ex)
        except Exception as e:  # noqa: BLE001
            tb = traceback.extract_tb(e.__traceback__)
            in_repo = any(os.path.realpath(f.filename).startswith(repo_root + os.sep) for f in tb)
            in_harness_last = tb and os.path.realpath(tb[-1].filename).startswith(env.VERIF)
            if in_repo and not in_harness_last:
                bus.flag("no_unexpected_exception",
                         f"library raised {type(e).__name__}: {str(e)[:300]}",
                         sig=(case.get("kind"), type(e).__name__),
                         witness=dict(trace=[f"{os.path.basename(f.filename)}:{f.lineno}:{f.name}" for f in tb[-6:]]))
            else:
                bus.error("run_case", e)
        done += 1
    d = bus.dump()
    d["cases_done"] = done
    d["cases_not_run"] = not_run
    with open(out_path + ".tmp", "w") as f:
        json.dump(d, f)
    os.replace(out_path + ".tmp", out_path)


if __name__ == "__main__":
    main()
