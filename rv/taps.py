"""Instrumentation attached from the harness to the imported tree (no source edit).

 * ctor taps on ETDRK0-4: record the caller-side (dt, linear_operator, options) of every integrator
   built anywhere (directly or inside a BaseStepper constructor).
 * call taps (`CallTap`): wrap a callable so that every execution - eager, or at *run time inside* jit /
   vmap / scan via jax.debug.callback(ordered=True) - appends (seq, inputs, outputs) to a host-side log.
"""
import functools, inspect
import numpy as np

ETDRK_INTENT = {}      # id(instance) -> dict(order, dt, linear_operator, kw)
_installed = {}


def install_etdrk_ctor_taps(ex, bus=None):
    if _installed.get("etdrk"):
        return
    for order, cls in enumerate((ex.etdrk.ETDRK0, ex.etdrk.ETDRK1, ex.etdrk.ETDRK2, ex.etdrk.ETDRK3, ex.etdrk.ETDRK4)):
        orig = cls.__dict__["__init__"]
        sig = inspect.signature(orig)

        def make(orig, sig, order):
            @functools.wraps(orig)
            def init(self, *a, **kw):
                ba = sig.bind(self, *a, **kw)
                ba.apply_defaults()
                orig(self, *a, **kw)
                args = dict(ba.arguments)
                ETDRK_INTENT[id(self)] = dict(order=order, dt=args.get("dt"), linear_operator=args.get("linear_operator"),
                                              num_circle_points=args.get("num_circle_points", 16),
                                              circle_radius=args.get("circle_radius", 1.0), obj=self)
                if bus is not None:
                    bus.tap(f"ETDRK{order}.__init__")
            return init
        cls.__init__ = make(orig, sig, order)
    _installed["etdrk"] = True


def etdrk_intent(integrator):
    return ETDRK_INTENT.get(id(integrator))


class CallTap:
    """Wraps fn; logs every *execution* (also inside compiled code) on the host, in order."""

    def __init__(self, fn, name="call", bus=None, record_arrays=True):
        self.fn, self.name, self.bus = fn, name, bus
        self.log = []          # list of dict(seq, traced, inputs=[np...], output=np)
        self.record_arrays = record_arrays

    def _sink(self, traced, *arrs):
        n_in = self._n_in
        rec = dict(seq=len(self.log), traced=traced,
                   inputs=[np.array(a) for a in arrs[:n_in]], outputs=[np.array(a) for a in arrs[n_in:]])
        self.log.append(rec)
        if self.bus is not None:
            self.bus.tap(self.name + (":traced" if traced else ":eager"))

    def __call__(self, *args):
        import jax
        import jax.tree_util as jtu
        out = self.fn(*args)
        leaves_in = jtu.tree_leaves(args)
        leaves_out = jtu.tree_leaves(out)
        self._n_in = len(leaves_in)
        traced = any(isinstance(x, jax.core.Tracer) for x in leaves_in + leaves_out)
        if traced:
            jax.debug.callback(functools.partial(self._sink, True), *leaves_in, *leaves_out, ordered=True)
        else:
            self._sink(False, *leaves_in, *leaves_out)
        return out

    def flush(self):
        import jax
        jax.effects_barrier()
        return self.log
