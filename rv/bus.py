"""Event bus: what the monitors observed, judged, skipped and flagged."""
import json, math, os, time, traceback
import numpy as np


def _jsonable(x, depth=0):
    if isinstance(x, (str, bool, type(None))):
        return x
    if isinstance(x, (int, np.integer)):
        return int(x)
    if isinstance(x, (float, np.floating)):
        x = float(x)
        return x if math.isfinite(x) else repr(x)
    if isinstance(x, complex):
        return [x.real, x.imag]
    if isinstance(x, dict):
        return {str(k): _jsonable(v, depth + 1) for k, v in x.items()}
    if isinstance(x, (list, tuple, set)):
        return [_jsonable(v, depth + 1) for v in x]
    if hasattr(x, "shape"):
        a = np.asarray(x)
        if a.size <= 16:
            return _jsonable(a.tolist())
        return {"shape": list(a.shape), "dtype": str(a.dtype),
                "absmax": float(np.max(np.abs(a))) if a.size else 0.0}
    return repr(x)


class Bus:
    """Collects judged events per monitor. One instance per worker process."""

    MAX_SAMPLES = 4
    MAX_VIOL = 40

    def __init__(self, prop):
        self.prop = prop
        self.mon = {}          # monitor -> counters
        self.sigs = {}         # monitor -> set of signature strings (applicable, non-trivial)
        self.samples = {}      # monitor -> list
        self.violations = []
        self.observations = []
        self.taps = {}         # tap name -> evaluations
        self.errors = []       # harness errors (-> inconclusive)
        self.case = None       # current case descriptor
        self.t0 = time.time()

    # ------------------------------------------------------------------ monitors
    def _m(self, monitor):
        return self.mon.setdefault(monitor, dict(
            judged=0, violations=0, outside_precondition=0, skipped=0,
            trivial=0, eager=0, traced=0, worst_ratio=0.0))

    def judge(self, monitor, err, tol, sig=None, *, sample=None, witness=None,
              nontrivial=True, traced=False, msg=""):
        """Judge one event: violated iff not (err <= tol). Returns True if held."""
        m = self._m(monitor)
        m["judged"] += 1
        m["traced" if traced else "eager"] += 1
        err = float(err)
        tol = float(tol)
        ok = bool(err <= tol)  # NaN -> violation
        ratio = err / tol if tol > 0 and math.isfinite(err) else (0.0 if ok else float("inf"))
        if ok and ratio > m["worst_ratio"]:
            m["worst_ratio"] = ratio
        if nontrivial:
            if sig is not None:
                self.sigs.setdefault(monitor, set()).add(json.dumps(_jsonable(sig)))
        else:
            m["trivial"] += 1
        s = self.samples.setdefault(monitor, [])
        if sample is not None and len(s) < self.MAX_SAMPLES:
            s.append(dict(sig=_jsonable(sig), err=err, tol=tol, **_jsonable(sample)))
        if not ok:
            m["violations"] += 1
            if len(self.violations) < self.MAX_VIOL:
                self.violations.append(dict(
                    monitor=monitor, sig=_jsonable(sig), err=_jsonable(err), tol=tol, msg=msg,
                    witness=_jsonable(witness if witness is not None else sample),
                    case=self.case))
        return ok

    def flag(self, monitor, msg, sig=None, witness=None):
        """A violation that is not a number (wrong exception, wrong shape, ...)."""
        return self.judge(monitor, float("inf"), 1.0, sig, witness=witness, msg=msg)

    def ok(self, monitor, sig=None, sample=None, nontrivial=True, traced=False):
        """A boolean event that held."""
        return self.judge(monitor, 0.0, 1.0, sig, sample=sample, nontrivial=nontrivial, traced=traced)

    def outside(self, monitor, reason=""):
        self._m(monitor)["outside_precondition"] += 1

    def skip(self, monitor, reason=""):
        self._m(monitor)["skipped"] += 1

    def observe(self, name, info=None):
        if len(self.observations) < 50:
            self.observations.append(dict(name=name, info=_jsonable(info)))

    def tap(self, name, n=1):
        self.taps[name] = self.taps.get(name, 0) + n

    def error(self, where, exc):
        self.errors.append(dict(where=where, exc=repr(exc), tb=traceback.format_exc()[-2000:], case=self.case))

    # ------------------------------------------------------------------ output
    def dump(self):
        return dict(prop=self.prop, mon=self.mon,
                    sigs={k: sorted(v) for k, v in self.sigs.items()},
                    samples=self.samples, violations=self.violations,
                    observations=self.observations, taps=self.taps, errors=self.errors,
                    wall=time.time() - self.t0)
