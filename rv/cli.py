"""./check CNN --tier quick|thorough [--replay f]: shard, run, aggregate, verdict, evidence."""
import argparse, importlib, json, os, shutil, subprocess, sys, tempfile, time

from rv import env

VERIF = env.VERIF


def load_known():
    p = os.path.join(VERIF, "known_findings.json")
    if not os.path.exists(p):
        return []
    return json.load(open(p)).get("findings", [])


def shard(cases, n):
    order = sorted(range(len(cases)), key=lambda i: -float(cases[i].get("cost", 1.0)))
    bins = [[] for _ in range(n)]
    load = [0.0] * n
    for i in order:
        j = load.index(min(load))
        bins[j].append(i)
        load[j] += float(cases[i].get("cost", 1.0))
    return [sorted(b) for b in bins if b]


def run_workers(prop, groups, workers, timeout, workdir, budget):
    """groups: list of (x64, [cases]); returns list of worker dumps + failures."""
    procs = []
    wid = 0
    nshards_total = 0
    plan = []
    tot = sum(len(c) for _, c in groups) or 1
    for x64, cs in groups:
        n = max(1, min(len(cs), round(workers * len(cs) / tot) or 1))
        for idx in shard(cs, n):
            plan.append((x64, [cs[i] for i in idx]))
    envp = dict(os.environ)
    envp["PYTHONPATH"] = VERIF + (":" + envp["PYTHONPATH"] if envp.get("PYTHONPATH") else "")
    envp.setdefault("PYTHONHASHSEED", "0")
    envp.setdefault("JAX_PLATFORMS", "cpu")
    envp.setdefault("EXPONAX_VERIF", "1")
    # keep XLA from oversubscribing: each worker gets a couple of threads
    envp.setdefault("XLA_FLAGS", "--xla_cpu_multi_thread_eigen=false")
    envp.setdefault("OMP_NUM_THREADS", "1")
    pending = list(enumerate(plan))
    running = []
    results, failures = [], []
    t_end = time.time() + timeout
    while pending or running:
        while pending and len(running) < workers:
            i, (x64, cs) = pending.pop(0)
            sp = os.path.join(workdir, f"spec{i}.json")
            op = os.path.join(workdir, f"out{i}.json")
            json.dump(dict(prop=prop, x64=x64, cases=cs, budget_s=budget), open(sp, "w"))
            lg = open(os.path.join(workdir, f"log{i}.txt"), "w")
            p = subprocess.Popen([sys.executable, "-m", "rv.worker", sp, op], stdout=lg,
                                 stderr=subprocess.STDOUT, env=envp, cwd=VERIF)
            running.append((i, p, op, lg, len(cs)))
        time.sleep(0.05)
        still = []
        for (i, p, op, lg, nc) in running:
            rc = p.poll()
            if rc is None:
                if time.time() > t_end:
                    p.kill()
                    failures.append(dict(shard=i, reason="watchdog-timeout", cases=nc))
                else:
                    still.append((i, p, op, lg, nc))
                continue
            lg.close()
            if rc == 0 and os.path.exists(op):
                results.append(json.load(open(op)))
            else:
                tail = open(os.path.join(workdir, f"log{i}.txt")).read()[-1500:]
                failures.append(dict(shard=i, reason=f"worker-exit-{rc}", cases=nc, log=tail))
        running = still
    return results, failures


def aggregate(dumps):
    agg = dict(mon={}, sigs={}, samples={}, violations=[], observations=[], taps={}, errors=[],
               cases_done=0, cases_not_run=0)
    for d in dumps:
        for k, m in d["mon"].items():
            a = agg["mon"].setdefault(k, dict(judged=0, violations=0, outside_precondition=0, skipped=0,
                                               trivial=0, eager=0, traced=0, worst_ratio=0.0))
            for f in a:
                if f == "worst_ratio":
                    a[f] = max(a[f], m[f])
                else:
                    a[f] += m[f]
        for k, s in d["sigs"].items():
            agg["sigs"].setdefault(k, set()).update(s)
        for k, s in d["samples"].items():
            cur = agg["samples"].setdefault(k, [])
            for x in s:
                if len(cur) < 3:
                    cur.append(x)
        agg["violations"] += d["violations"]
        agg["observations"] += d["observations"]
        for k, v in d["taps"].items():
            agg["taps"][k] = agg["taps"].get(k, 0) + v
        agg["errors"] += d["errors"]
        agg["cases_done"] += d.get("cases_done", 0)
        agg["cases_not_run"] += d.get("cases_not_run", 0)
    return agg


def main(argv=None):
    ap = argparse.ArgumentParser()
    ap.add_argument("prop")
    ap.add_argument("--tier", default=None)
    ap.add_argument("--replay", default=None)
    ap.add_argument("--workers", type=int, default=int(os.environ.get("VERIF_WORKERS", "16")))
    ap.add_argument("--only", default=None, help="run only cases whose kind contains this")
    ap.add_argument("--no-evidence", action="store_true")
    a = ap.parse_args(argv)
    prop = a.prop.upper()
    tier = a.tier or os.environ.get("VERIF_TIER") or "quick"
    if tier not in ("quick", "thorough"):
        tier = "quick"
    seed = int(os.environ.get("VERIF_SEED", "0") or 0)
    t0 = time.time()
    sys.path.append(env.DEPS)
    mod = importlib.import_module(f"rv.props.{prop.lower()}")

    if a.replay:
        rp = json.load(open(a.replay))
        cases = [rp["case"]]
        tier = rp.get("tier", tier)
        seed = rp.get("seed", seed)
    else:
        cases = mod.cases(tier, seed)
        if a.only:
            cases = [c for c in cases if a.only in str(c.get("kind"))]
    groups = {}
    for c in cases:
        groups.setdefault(bool(c.get("x64", True)), []).append(c)
    timeout = getattr(mod, "TIMEOUT", {}).get(tier, 2400 if tier == "quick" else 7200)
    os.makedirs(os.path.join(VERIF, ".cache"), exist_ok=True)
    workdir = tempfile.mkdtemp(prefix=f"run-{prop}-", dir=os.path.join(VERIF, ".cache"))
    try:
        dumps, failures = run_workers(prop, sorted(groups.items()), a.workers, timeout, workdir,
                                      budget=timeout * 0.9)
        ambient_note = None
        if tier == "thorough" and getattr(mod, "AMBIENT", False) and not a.replay and not a.only:
            # ambient workload: the repository's own unedited test-suite under this property's general monitors
            adir = os.path.join(workdir, "ambient")
            os.makedirs(adir, exist_ok=True)
            envp = dict(os.environ, RV_AMBIENT=prop, RV_AMBIENT_OUT=adir, PYTHONPATH=VERIF + ":" + env.REPO, JAX_PLATFORMS="cpu", PYTHONHASHSEED="0")
            try:
                r = subprocess.run([sys.executable, "-m", "pytest", "-q", "-p", "no:cacheprovider", "-p", "rv.ambient", "--timeout=900", "-n", str(min(a.workers, 12)), "tests"],
                                   cwd=env.REPO, env=envp, capture_output=True, text=True, timeout=2400)
                tail = [l for l in r.stdout.splitlines() if " passed" in l or " failed" in l or "error" in l.lower()][-1:]
                ambient_note = "; ".join(tail)
            except subprocess.TimeoutExpired:
                failures.append(dict(shard="ambient", reason="ambient pytest run timed out", cases=0))
            got = 0
            for f in sorted(os.listdir(adir)):
                if f.endswith(".json"):
                    dumps.append(json.load(open(os.path.join(adir, f))))
                    got += 1
            if not got:
                failures.append(dict(shard="ambient", reason="ambient run produced no monitor output", cases=0))
    finally:
        shutil.rmtree(workdir, ignore_errors=True)
    agg = aggregate(dumps)

    # ---------------------------------------------------------------- verdict
    known = {(k["property"], k["key"]): k for k in load_known()}
    classify = getattr(mod, "classify", lambda v: None)
    unlisted, listed = [], {}
    for v in agg["violations"]:
        key = None
        try:
            key = classify(v)
        except Exception:  # noqa: BLE001
            key = None
        kf = known.get((prop, key)) if key else None
        if kf and kf.get("status") == "known":
            listed.setdefault(key, []).append(v)
        else:
            v["classified_as"] = key
            unlisted.append(v)
    inconclusive = []
    for f in failures:
        inconclusive.append(f"worker shard {f['shard']}: {f['reason']}")
    for e in agg["errors"][:5]:
        inconclusive.append(f"harness error in {e['where']}: {e['exc']}")
    if agg["cases_not_run"]:
        inconclusive.append(f"{agg['cases_not_run']} cases not run within the time budget")
    required = getattr(mod, "REQUIRED", {})
    if not a.replay and not a.only:
        for mname, need in required.items():
            need = need.get(tier, 1) if isinstance(need, dict) else need
            got = agg["mon"].get(mname, {}).get("judged", 0)
            if got < need:
                inconclusive.append(f"monitor {mname} judged {got} < {need} events")
        if tier == "thorough" and getattr(mod, "AMBIENT", False):
            for mname, need in getattr(mod, "REQUIRED_AMBIENT", {}).items():
                got = agg["mon"].get(mname, {}).get("judged", 0)
                if got < need:
                    inconclusive.append(f"ambient monitor {mname} judged {got} < {need} events")
        for tname, need in getattr(mod, "REQUIRED_TAPS", {}).items():
            if agg["taps"].get(tname, 0) < need:
                inconclusive.append(f"tap {tname} evaluated {agg['taps'].get(tname, 0)} < {need} times")

    print(f"== {prop} tier={tier} seed={seed} cases={len(cases)} workers={a.workers} repo={env.REPO}")
    for k in sorted(agg["mon"]):
        m = agg["mon"][k]
        print(f"   {k:34s} judged={m['judged']:6d} viol={m['violations']:4d} outside={m['outside_precondition']:5d} "
              f"skipped={m['skipped']:4d} traced={m['traced']:5d} distinct={len(agg['sigs'].get(k, ())):5d} "
              f"worst err/tol={m['worst_ratio']:.2e}")
    if ambient_note:
        print("   ambient test-suite run:", ambient_note)
    if agg["taps"]:
        print("   taps:", json.dumps(agg["taps"], sort_keys=True))
    for o in agg["observations"][:8]:
        print("   observation:", o["name"], json.dumps(o["info"])[:200])
    for key, vs in sorted(listed.items()):
        print(f"KNOWN-FINDING: property={prop} {key}: {known[(prop, key)].get('what_fails', '')} ({len(vs)} events)")

    rc = 0
    replay_path = None
    if unlisted:
        rdir = os.path.join(VERIF, "replay")
        os.makedirs(rdir, exist_ok=True)
        v = unlisted[0]
        replay_path = os.path.join(rdir, f"{prop}-{tier}-s{seed}-{int(time.time())}.json")
        json.dump(dict(property=prop, tier=tier, seed=seed, case=v.get("case"), violation=v,
                       more=[dict(monitor=x["monitor"], sig=x["sig"], msg=x["msg"], err=x["err"], tol=x["tol"])
                             for x in unlisted[1:20]]), open(replay_path, "w"), indent=1)
        for x in unlisted[:6]:
            print(f"   violation: monitor={x['monitor']} sig={json.dumps(x['sig'])[:160]} err={x['err']} tol={x['tol']:.3g} {x['msg'][:200]}")
        print(f"VIOLATION property={prop} replay={replay_path}")
        rc = 1
    elif inconclusive:
        for r in inconclusive[:10]:
            print(f"INCONCLUSIVE property={prop} reason={r}")
        for f in failures[:2]:
            if f.get("log"):
                print(f["log"])
        for e in agg["errors"][:2]:
            print(e["tb"])
        rc = 2
    else:
        print(f"HELD property={prop} on everything observed")

    # ---------------------------------------------------------------- evidence
    if not a.replay and not a.only and not a.no_evidence:
        deciding = getattr(mod, "DECIDING", None) or list(agg["mon"])
        evals = sum(agg["mon"].get(k, {}).get("judged", 0) for k in agg["mon"])
        allsig = set()
        for k, s in agg["sigs"].items():
            allsig.update((k + "|" + x) for x in s)
        samples = []
        for k in sorted(agg["samples"]):
            for s in agg["samples"][k][:2]:
                samples.append(dict(monitor=k, **s))
        ev = dict(
            property_id=prop, tier=tier, seed=seed, level="exploration",
            coverage=dict(
                evaluations=int(evals), distinct_nontrivial=int(len(allsig)),
                rule=getattr(mod, "RULE", ""), samples=samples[:24] or [dict(note="no samples recorded")],
                exhaustive=bool(getattr(mod, "EXHAUSTIVE", False)),
                cases=len(cases), cases_done=agg["cases_done"],
                monitors={k: dict(m, distinct=len(agg["sigs"].get(k, ()))) for k, m in agg["mon"].items()},
                taps=agg["taps"], observations=agg["observations"][:20],
                known_findings_matched={k: len(v) for k, v in listed.items()},
                verdict={0: "held", 1: "violated", 2: "inconclusive"}[rc], ambient_test_suite=ambient_note,
                inconclusive_reasons=inconclusive[:10],
                deciding_monitors=deciding),
            assumptions=list(getattr(mod, "ASSUMPTIONS", [])),
            wall_s=round(time.time() - t0, 2), violations=len(unlisted))
        os.makedirs(os.path.join(VERIF, "evidence"), exist_ok=True)
        path = os.path.join(VERIF, "evidence", f"{prop}.json")
        json.dump(ev, open(path, "w"), indent=1)
        try:
            import jsonschema
            jsonschema.validate(ev, json.load(open(os.path.join(VERIF, "tools", "EVIDENCE.schema.json"))))
        except ImportError:
            pass
        except Exception as e:  # noqa: BLE001
            print(f"INCONCLUSIVE property={prop} reason=evidence-schema: {str(e)[:300]}")
            rc = rc or 2
    print(f"   wall={time.time() - t0:.1f}s")
    sys.exit(rc)


if __name__ == "__main__":
    main()
