"""Grids, full complex FFT book-keeping, trigonometric polynomials with closed forms."""
import itertools
import numpy as np


def kint_full(D, N):
    """Integer wavenumbers on all axes (fftfreq layout), shape (D, N, ..., N)."""
    k1 = np.rint(np.fft.fftfreq(N, 1.0 / N)).astype(np.int64)
    return np.stack(np.meshgrid(*([k1] * D), indexing="ij"))


def kint_rfft(D, N):
    """Integer wavenumbers of the stored half spectrum, shape (D, N, ..., N//2+1)."""
    k1 = np.rint(np.fft.fftfreq(N, 1.0 / N)).astype(np.int64)
    kr = np.arange(N // 2 + 1, dtype=np.int64)
    return np.stack(np.meshgrid(*([k1] * (D - 1) + [kr]), indexing="ij"))


def nyquist_mask(kint, N):
    """True where some component sits on the Nyquist wavenumber (even N only)."""
    if N % 2:
        return np.zeros(kint.shape[1:], bool)
    return np.any(np.abs(kint) == N // 2, axis=0)


def grid(D, L, N):
    x1 = np.arange(N) * (L / N)
    return np.stack(np.meshgrid(*([x1] * D), indexing="ij"))


def axes(D):
    return tuple(range(-D, 0))


def fftn(u, D):
    return np.fft.fftn(u, axes=axes(D))


def ifftn(uh, D):
    return np.fft.ifftn(uh, axes=axes(D))


def to_rfft(uh_full):
    """Full spectrum (..., N, ..., N) -> stored half spectrum along the last axis."""
    N = uh_full.shape[-1]
    return uh_full[..., : N // 2 + 1]


def nyquist_content(u, D):
    """max |u_hat| on modes with a Nyquist component, relative to max |u_hat| (0 for odd N)."""
    N = u.shape[-1]
    if N % 2:
        return 0.0
    uh = fftn(u, D)
    m = nyquist_mask(kint_full(D, N), N)
    top = np.max(np.abs(uh)) or 1.0
    return float(np.max(np.abs(uh[..., m])) / top) if m.any() else 0.0


def remove_nyquist(u, D):
    N = u.shape[-1]
    if N % 2:
        return u
    uh = fftn(u, D)
    uh[..., nyquist_mask(kint_full(D, N), N)] = 0
    return np.real(ifftn(uh, D))


def band_limit(u, D, K):
    """Keep |k|_inf <= K."""
    N = u.shape[-1]
    uh = fftn(u, D)
    k = kint_full(D, N)
    uh[..., np.any(np.abs(k) > K, axis=0)] = 0
    return np.real(ifftn(uh, D))


class TrigPoly:
    """u_c(x) = sum_j a_j cos(2 pi k_j . x / L + phi_j), per channel; k_j integer vectors."""

    def __init__(self, D, L, terms):
        self.D, self.L = D, L
        self.terms = terms  # list over channels of list of (kvec tuple, a, phi)

    @property
    def C(self):
        return len(self.terms)

    def scale(self):
        return max(1e-300, max(sum(abs(a) for _, a, _ in ch) for ch in self.terms))

    def kmax(self):
        return max([1] + [max(abs(x) for x in k) for ch in self.terms for k, _, _ in ch])

    def eval(self, X):
        """X: coordinates (D, ...) -> (C, ...)."""
        out = []
        for ch in self.terms:
            acc = np.zeros(X.shape[1:])
            for k, a, p in ch:
                arg = sum((2 * np.pi * k[d] / self.L) * X[d] for d in range(self.D)) + p
                acc = acc + a * np.cos(arg)
            out.append(acc)
        return np.stack(out)

    def on_grid(self, N):
        return self.eval(grid(self.D, self.L, N))

    def mapped(self, mult):
        """Apply a Fourier multiplier m(kvec_physical) (complex; m(-k)=conj m(k)) analytically."""
        new = []
        for ch in self.terms:
            t = []
            for k, a, p in ch:
                kp = np.array(k, float) * (2 * np.pi / self.L)
                m = complex(mult(kp))
                t.append((k, a * abs(m), p + np.angle(m)))
            new.append(t)
        return TrigPoly(self.D, self.L, new)

    def derivative(self, axis, order=1):
        return self.mapped(lambda kp: (1j * kp[axis]) ** order)

    def describe(self):
        return [[(list(map(int, k)), round(float(a), 6), round(float(p), 6)) for k, a, p in ch][:4] for ch in self.terms]


def random_trigpoly(rng, D, L, N, C=1, nterms=4, kmax=None, include_dc=True, amp=1.0):
    """Random Nyquist-free trigonometric polynomial: |k_d| <= (N-1)//2 (strictly below Nyquist)."""
    K = (N - 1) // 2 if kmax is None else min(kmax, (N - 1) // 2)
    terms = []
    for _ in range(C):
        ch = []
        for j in range(nterms):
            k = tuple(int(x) for x in rng.integers(-K, K + 1, size=D))
            if not include_dc and all(x == 0 for x in k):
                k = (min(1, K),) + k[1:]
            ch.append((k, float(amp * rng.uniform(0.2, 1.0)), float(rng.uniform(0, 2 * np.pi))))
        terms.append(ch)
    return TrigPoly(D, L, terms)


def all_modes_below_nyquist(D, N):
    K = (N - 1) // 2
    return list(itertools.product(range(-K, K + 1), repeat=D))


def stored_modes(D, N):
    """Every stored wavenumber vector of the rfft layout with its array index."""
    k = kint_rfft(D, N)
    out = []
    for idx in np.ndindex(*k.shape[1:]):
        out.append((idx, tuple(int(k[(d,) + idx]) for d in range(D))))
    return out


def random_state(rng, kind, C, D, N, amp=1.0):
    """Hostile/realistic real states; returns (array (C,N..N) float64, label)."""
    shp = (C,) + (N,) * D
    if kind == "white":
        u = rng.normal(size=shp)
    elif kind == "nyqfree":
        u = remove_nyquist(rng.normal(size=shp), D)
    elif kind == "band":
        u = band_limit(rng.normal(size=shp), D, max(1, (N - 1) // 4))
    elif kind == "checker":
        idx = np.indices((N,) * D).sum(0)
        u = ((-1.0) ** idx)[None] * np.ones(shp) + 0.3 * rng.normal(size=shp)
    elif kind == "const":
        u = np.ones(shp) * rng.normal(size=(C,) + (1,) * D)
    elif kind == "zero":
        u = np.zeros(shp)
    elif kind == "smooth":
        u = band_limit(rng.normal(size=shp), D, 2)
        u = u / (np.max(np.abs(u)) or 1.0)
    else:
        raise KeyError(kind)
    return amp * u
