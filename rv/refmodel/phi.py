"""Exact phi-function expressions of the ETDRK coefficients (mpmath, with explicit z -> 0 limits)."""
import math
import numpy as np
import mpmath as mp

_DPS = 60


def _phis(z):
    """phi1, phi2, phi3 at complex z (mp numbers), series for small |z|."""
    z = mp.mpc(z)
    if abs(z) < mp.mpf("0.5"):
        p = []
        for s in (1, 2, 3):
            acc, term, n = mp.mpc(0), mp.mpf(1) / mp.factorial(s), 0
            while True:
                acc += term
                n += 1
                term = term * z / (n + s)
                if abs(term) < mp.mpf(10) ** (-_DPS - 5) and n > 3:
                    break
            p.append(acc)
        return tuple(p)
    e = mp.exp(z)
    p1 = (e - 1) / z
    p2 = (e - 1 - z) / z ** 2
    p3 = (e - 1 - z - z ** 2 / 2) / z ** 3
    return p1, p2, p3


def exact(z):
    """dict of the six closed forms the steppers use, at complex z, as Python complex."""
    old = mp.mp.dps
    # closed forms cancel ~|z|^3 digits for small z: series branch handles |z|<0.5; 60 digits for the rest
    mp.mp.dps = _DPS + 10
    try:
        zz = mp.mpc(complex(z))
        p1, p2, p3 = _phis(zz)
        p1h = _phis(zz / 2)[0] / 2          # (e^{z/2}-1)/z = phi1(z/2)/2
        out = dict(p1=p1, p1h=p1h, p2=p2, a=p1 - 3 * p2 + 4 * p3, b=p2 - 2 * p3, c=4 * p3 - p2,
                   e=mp.exp(zz), eh=mp.exp(zz / 2), p3=p3)
        return {k: complex(v) for k, v in out.items()}
    finally:
        mp.mp.dps = old


_cache = {}


def exact_array(zs):
    """Vectorised (cached) evaluation; returns dict name -> complex ndarray shaped like zs."""
    zs = np.asarray(zs, dtype=complex)
    flat = zs.reshape(-1)
    keys = ("p1", "p1h", "p2", "p3", "a", "b", "c", "e", "eh")
    out = {k: np.empty(flat.shape, complex) for k in keys}
    for i, z in enumerate(flat):
        kz = (float(z.real), float(z.imag))
        r = _cache.get(kz)
        if r is None:
            r = exact(z)
            if len(_cache) < 200000:
                _cache[kz] = r
        for k in keys:
            out[k][i] = r[k]
    return {k: v.reshape(zs.shape) for k, v in out.items()}


def roots(M):
    return np.exp(2j * np.pi * (np.arange(1, M + 1) - 0.5) / M)


def contour_conditioning(z, name, M=16, r=1.0):
    """A-priori absolute rounding scale of the documented Kassam-Trefethen contour mean of coefficient `name`
    at z (per unit eps), plus the trapezoid truncation error of the M-point rule. Vectorised over z."""
    z = np.asarray(z, complex)
    w = z[..., None] + r * roots(M)
    aw = np.abs(w)
    with np.errstate(over="ignore", invalid="ignore"):
        ew = np.exp(np.minimum(w.real, 700.0)) * (1 + aw)
        ewh = np.exp(np.minimum(w.real / 2, 700.0)) * (1 + aw / 2)
        if name == "p1":
            A = (ew + 1) / aw
        elif name == "p1h":
            A = (ewh + 1) / aw
        elif name == "p2":
            A = (ew + 1 + aw) / aw ** 2
        elif name == "a":
            A = (4 + aw + ew * (4 + 3 * aw + aw ** 2)) / aw ** 3
        elif name == "b":
            A = (2 + aw + ew * (2 + aw)) / aw ** 3
        elif name == "c":
            A = (4 + 3 * aw + aw ** 2 + ew * (4 + aw)) / aw ** 3
        else:
            raise KeyError(name)
        kappa = A.mean(-1)
        trunc = np.maximum(1.0, np.exp(np.minimum(z.real + r, 700.0))) * r ** M / math.factorial(M)
    return kappa, trunc


# which closed form each stored coefficient of each order documents (and its constant factor)
COEFS = {
    1: {"_coef_1": ("p1", 1.0)},
    2: {"_coef_1": ("p1", 1.0), "_coef_2": ("p2", 1.0)},
    3: {"_coef_1": ("p1h", 1.0), "_coef_2": ("p1", 1.0), "_coef_3": ("a", 1.0), "_coef_4": ("b", 4.0), "_coef_5": ("c", 1.0)},
    4: {"_coef_1": ("p1h", 1.0), "_coef_2": ("p1h", 1.0), "_coef_3": ("p1h", 1.0), "_coef_4": ("a", 1.0), "_coef_5": ("b", 1.0), "_coef_6": ("c", 1.0)},
}
