"""Naive Python models of the trajectory utilities (no exponax, no jax control flow)."""


def rollout_model(step, u0, n, include_init=False, auxs=None):
    """auxs: None, or list of n aux values (already expanded)."""
    out = [u0] if include_init else []
    u = u0
    for i in range(n):
        u = step(u) if auxs is None else step(u, auxs[i])
        out.append(u)
    return out


def windows_model(seq, w):
    return [seq[i:i + w] for i in range(len(seq) - w + 1)]
