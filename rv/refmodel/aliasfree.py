"""Alias-free evaluation of the documented nonlinear operators on the band-truncated state.

The state is truncated to the documented band |k|_inf <= K, embedded in a grid M = 4N (no aliasing possible for
products of up to three factors), the continuous operator is evaluated with full-FFT derivatives, and the result is
restricted to the band again.  Spectra are returned *forward-normalised* (divided by N^D) in the full (fftfreq) layout.
"""
from fractions import Fraction
import math
import numpy as np
from . import grid as G


def documented_cutoff(N, fraction):
    """K such that the documented band is |k|_inf <= K  (fraction * (N//2) - 1, exact rational arithmetic)."""
    c = Fraction(fraction).limit_denominator(1000) * (N // 2) - 1
    return math.floor(c)   # may be negative: empty band


def band_mask(D, N, K):
    k = G.kint_full(D, N)
    return np.all(np.abs(k) <= K, axis=0)


def _embed(uh, D, N, M):
    out = np.zeros(uh.shape[:-D] + (M,) * D, complex)
    idx = [np.rint(np.fft.fftfreq(N, 1.0 / N)).astype(int) % M] * D
    out[(Ellipsis,) + np.ix_(*idx)] = uh
    return out * (M / N) ** D


def _restrict(vh, D, N, M):
    idx = [np.rint(np.fft.fftfreq(N, 1.0 / N)).astype(int) % M] * D
    return vh[(Ellipsis,) + np.ix_(*idx)] * (N / M) ** D


class Ctx:
    def __init__(self, D, M, L):
        self.D = D
        self.k = [(2 * np.pi / L) * x for x in G.kint_full(D, M).astype(float)]

    def iF(self, fh):
        return np.real(G.ifftn(fh, self.D))

    def F(self, f):
        return G.fftn(f, self.D)

    def d(self, fh, axis, order=1):
        return fh * (1j * self.k[axis]) ** order

    def mean(self, f):
        return f.mean(axis=G.axes(self.D), keepdims=True)


# each op: (ctx, Uh (C, M..M) full spectrum of the truncated state, params) -> spectrum (C', M..M)
def op_conv_mc_nc(c, Uh, p):
    U = c.iF(Uh)
    D = c.D
    return c.F(np.stack([-p["scale"] * sum(U[j] * c.iF(c.d(Uh[i], j)) for j in range(D)) for i in range(D)]))


def op_conv_mc_c(c, Uh, p):
    U = c.iF(Uh)
    D = c.D
    return np.stack([-p["scale"] * 0.5 * sum(c.d(c.F(U[i] * U[j]), j) for j in range(D)) for i in range(D)])


def op_conv_sc_c(c, Uh, p):
    U = c.iF(Uh)
    return -p["scale"] * 0.5 * sum(c.d(c.F(U * U), j) for j in range(c.D))


def op_conv_sc_nc(c, Uh, p):
    U = c.iF(Uh)
    return c.F(-p["scale"] * U * sum(c.iF(c.d(Uh, j)) for j in range(c.D)))


def op_gradnorm(c, Uh, p):
    g = sum(c.iF(c.d(Uh, j)) ** 2 for j in range(c.D))
    if p.get("zero_mode_fix", True):
        g = g - c.mean(g)
    return c.F(-p["scale"] * 0.5 * g)


def op_poly(c, Uh, p):
    U = c.iF(Uh)
    return c.F(sum(a * U ** j for j, a in enumerate(p["coefficients"])) + 0 * U)


def op_general(c, Uh, p):
    s = p["scale_list"]
    U = c.iF(Uh)
    g = sum(c.iF(c.d(Uh, j)) ** 2 for j in range(c.D))
    if p.get("zero_mode_fix", True):
        g = g - c.mean(g)
    return c.F(s[0] * U ** 2) + s[1] * 0.5 * sum(c.d(c.F(U * U), j) for j in range(c.D)) + c.F(s[2] * 0.5 * g)


def op_vort2d(c, Uh, p):
    k2 = -(c.k[0] ** 2 + c.k[1] ** 2)
    inv = np.where(k2 == 0, 0.0, 1.0 / np.where(k2 == 0, 1.0, k2))
    psi = inv * Uh
    ux = c.iF(c.d(psi, 1))
    uy = -c.iF(c.d(psi, 0))
    return c.F(-p["scale"] * (ux * c.iF(c.d(Uh, 0)) + uy * c.iF(c.d(Uh, 1))))


def op_rot3d(c, Uh, p):
    U = c.iF(Uh)
    W = np.stack([c.iF(c.d(Uh[2], 1) - c.d(Uh[1], 2)), c.iF(c.d(Uh[0], 2) - c.d(Uh[2], 0)), c.iF(c.d(Uh[1], 0) - c.d(Uh[0], 1))])
    return c.F(np.cross(U, W, axis=0))


def op_cahn_hilliard(c, Uh, p):
    U = c.iF(Uh)
    return p["scale"] * sum(c.d(c.F(U ** 3), j, 2) for j in range(c.D))


def op_gray_scott(c, Uh, p):
    U = c.iF(Uh)
    f, k = p["feed_rate"], p["kill_rate"]
    return c.F(np.stack([f * (1 - U[0]) - U[0] * U[1] ** 2, -(f + k) * U[1] + U[0] * U[1] ** 2]))


OPS = dict(conv_mc_nc=(op_conv_mc_nc, 2, 1), conv_mc_c=(op_conv_mc_c, 2, 1), conv_sc_c=(op_conv_sc_c, 2, 1), conv_sc_nc=(op_conv_sc_nc, 2, 1),
           gradnorm=(op_gradnorm, 2, 2), poly=(op_poly, None, 0), general=(op_general, 2, 2), vort2d=(op_vort2d, 2, 0),
           rot3d=(op_rot3d, 2, 1), cahn_hilliard=(op_cahn_hilliard, 3, 2), gray_scott=(op_gray_scott, 3, 0))


def leray_full(vh, D, N, L):
    """Model's own projector I - k k^T / |k|^2 on a full-layout spectrum (D, N..N)."""
    k = G.kint_full(D, N).astype(float) * (2 * np.pi / L)
    k2 = (k ** 2).sum(0)
    div = (k * vh).sum(0)
    with np.errstate(divide="ignore", invalid="ignore"):
        corr = np.where(k2 == 0, 0.0, div / np.where(k2 == 0, 1.0, k2))
    return vh - k * corr


def scale(opname, p, usup, kmax, L):
    """A-priori magnitude of the operator on a state bounded by usup with wavenumbers up to kmax (input-derived)."""
    if opname.startswith("conv_"):
        return abs(p["scale"]) * kmax * usup ** 2
    if opname == "gradnorm":
        return abs(p["scale"]) * kmax ** 2 * usup ** 2
    if opname == "poly":
        return sum(abs(a) * usup ** j for j, a in enumerate(p["coefficients"])) + 1e-300
    if opname == "general":
        s = p["scale_list"]
        return (abs(s[0]) + abs(s[1]) * kmax + abs(s[2]) * kmax ** 2) * usup ** 2
    if opname == "vort2d":
        return abs(p["scale"]) * usup ** 2 * max(1.0, L / (2 * np.pi)) * kmax
    if opname == "rot3d":
        return kmax * usup ** 2
    if opname == "cahn_hilliard":
        return abs(p["scale"]) * kmax ** 2 * usup ** 3
    if opname == "gray_scott":
        f, k = p["feed_rate"], p["kill_rate"]
        return f * (1 + usup) + (f + k) * usup + usup ** 3
    raise KeyError(opname)


def evaluate(opname, params, u, D, N, L, K, project=False):
    """Forward-normalised full-layout spectrum of the documented operator on the K-truncated state, and a scale."""
    M = 4 * N
    op, degree, q = OPS[opname]
    if degree is None:
        degree = max(1, len(params["coefficients"]) - 1)
    mask = band_mask(D, N, K) if K >= 0 else np.zeros((N,) * D, bool)
    uh = G.fftn(u, D) * mask
    c = Ctx(D, M, L)
    res = op(c, _embed(uh, D, N, M), params)
    r = _restrict(res, D, N, M) * mask
    if project:
        r = leray_full(r, D, N, L) * mask
    r = r / N ** D
    usup = float(np.sum(np.abs(uh)) / N ** D)
    kmax = (2 * np.pi / L) * max(K, 1)
    S = scale(opname, params, usup, kmax, L)
    return r, S, mask
