"""Independent executable models. NumPy / SciPy / mpmath only - never imports exponax."""
