"""Reference Cox-Matthews ETDRK1-4 update in phi-form; the nonlinear term is a black box."""
import numpy as np
from . import phi as P


def step(order, dt, L, Nfun, u_hat):
    """One step.  L: linear symbol array (broadcastable to u_hat); Nfun: callable on spectra (numpy in/out)."""
    f = P.exact_array(np.asarray(dt * L, complex))
    E, Eh = f["e"], f["eh"]
    if order == 0:
        return E * u_hat
    Nu = Nfun(u_hat)
    if order == 1:
        return E * u_hat + dt * f["p1"] * Nu
    if order == 2:
        a = E * u_hat + dt * f["p1"] * Nu
        return a + dt * f["p2"] * (Nfun(a) - Nu)
    if order == 3:
        a = Eh * u_hat + dt * f["p1h"] * Nu
        Na = Nfun(a)
        b = E * u_hat + dt * f["p1"] * (2 * Na - Nu)
        return E * u_hat + dt * (f["a"] * Nu + 4 * f["b"] * Na + f["c"] * Nfun(b))
    if order == 4:
        a = Eh * u_hat + dt * f["p1h"] * Nu
        Na = Nfun(a)
        b = Eh * u_hat + dt * f["p1h"] * Na
        Nb = Nfun(b)
        c = Eh * a + dt * f["p1h"] * (2 * Nb - Nu)
        return E * u_hat + dt * (f["a"] * Nu + 2 * f["b"] * (Na + Nb) + f["c"] * Nfun(c))
    raise ValueError(order)
