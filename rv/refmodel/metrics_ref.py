"""Direct quadrature / full-FFT Parseval models of the documented metrics (NumPy only)."""
import numpy as np
from . import grid as G


def spatial_agg(x, L, p, q):
    """[(L/N)^D sum |x|^p]^q for one channel-less field."""
    N, D = x.shape[-1], x.ndim
    return float(((L / N) ** D * np.sum(np.abs(x) ** p)) ** q)


def spatial(u, v, L, p, q, mode="absolute"):
    d = u if v is None else u - v
    tot = 0.0
    for c in range(u.shape[0]):
        a = spatial_agg(d[c], L, p, q)
        if mode == "normalized":
            a = a / spatial_agg(v[c], L, p, q)
        elif mode == "symmetric":
            a = 2 * a / (spatial_agg(u[c], L, p, q) + spatial_agg(v[c], L, p, q))
        tot += a
    return tot


def band_of(D, N):
    return np.max(np.abs(G.kint_full(D, N)), axis=0)


def fourier_agg(x, L, p, q, low=None, high=None, deriv=None, floor=1e-5):
    """Sum over the FULL spectrum: [(L/N)^D N^-D sum_k |x_hat_k|^p]^q, summed over gradient entries if deriv is given.
    Returns (value, floor_loss) where floor_loss is the relative weight of coefficients inside the documented absolute floor."""
    N, D = x.shape[-1], x.ndim
    xh = np.fft.fftn(x)
    mag = np.abs(xh)
    loss = float(np.sum(mag[mag < floor] ** p) / (np.sum(mag ** p) + 1e-300))
    xh = np.where(mag < floor, 0, xh)
    if low is not None or high is not None:
        lo = 0 if low is None else low
        hi = N // 2 + 1 if high is None else high
        b = band_of(D, N)
        xh = xh * ((b >= lo) & (b <= hi))
    scale = (L / N) ** D / N ** D
    if deriv is None:
        return float((scale * np.sum(np.abs(xh) ** p)) ** q), loss
    k = G.kint_full(D, N).astype(float) * (2 * np.pi / L)
    tot = 0.0
    for d in range(D):
        tot += (scale * np.sum(np.abs(xh * (1j * k[d]) ** deriv) ** p)) ** q
    return float(tot), loss


def fourier(u, v, L, p, q, mode="absolute", **kw):
    d = u if v is None else u - v
    tot, worst_loss = 0.0, 0.0
    for c in range(u.shape[0]):
        a, l1 = fourier_agg(d[c], L, p, q, **kw)
        worst_loss = max(worst_loss, l1)
        if mode == "normalized":
            b, l2 = fourier_agg(v[c], L, p, q, **kw)
            worst_loss = max(worst_loss, l2)
            a = a / b if b != 0 else np.inf
        tot += a
    return tot, worst_loss


def correlation(u, v):
    out = []
    for c in range(u.shape[0]):
        a, b = u[c].ravel(), v[c].ravel()
        out.append(float(np.dot(a, b) / (np.linalg.norm(a) * np.linalg.norm(b))))
    return float(np.mean(out))
