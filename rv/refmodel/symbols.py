"""Analytic linear symbols sigma(k) of the documented PDEs (k physical: 2 pi k_int / L)."""
import numpy as np


def _vec(x, D):
    x = np.asarray(x, float)
    return np.ones(D) * x if x.ndim == 0 else x


def _mat(x, D):
    x = np.asarray(x, float)
    if x.ndim == 0:
        return np.eye(D) * x
    if x.ndim == 1:
        return np.diag(x)
    return x


def advection(K, velocity):
    D = K.shape[0]
    c = _vec(velocity, D)
    return -1j * np.tensordot(c, K, axes=(0, 0))


def diffusion(K, diffusivity):
    D = K.shape[0]
    A = _mat(diffusivity, D)
    return -np.einsum("ij,i...,j...->...", A, K, K) + 0j


def dispersion(K, dispersivity, mixed=False):
    D = K.shape[0]
    xi = _vec(dispersivity, D)
    if mixed:  # xi . grad (laplace u)
        return (1j * np.tensordot(xi, K, axes=(0, 0))) * (-(K ** 2).sum(0))
    return np.tensordot(xi, (1j * K) ** 3, axes=(0, 0))


def hyper_diffusion(K, zeta, mixed=False):
    if mixed:
        return -zeta * ((K ** 2).sum(0)) ** 2 + 0j
    return -zeta * (K ** 4).sum(0) + 0j


def generic(K, coeffs):
    """Documented generic symbol  sum_j a_j sum_d (i k_d)^j  (a_0 counted D times)."""
    s = np.zeros(K.shape[1:], complex)
    for j, a in enumerate(coeffs):
        s = s + a * ((1j * K) ** j).sum(0)
    return s


def laplace(K):
    return -(K ** 2).sum(0) + 0j


# ---- magnitude of the terms entering each symbol (rounding scale under cancellation)
def advection_abs(K, velocity):
    return np.tensordot(np.abs(_vec(velocity, K.shape[0])), np.abs(K), axes=(0, 0))


def diffusion_abs(K, diffusivity):
    A = np.abs(_mat(diffusivity, K.shape[0]))
    return np.einsum("ij,i...,j...->...", A, np.abs(K), np.abs(K))


def dispersion_abs(K, dispersivity, mixed=False):
    xi = np.abs(_vec(dispersivity, K.shape[0]))
    if mixed:
        return np.tensordot(xi, np.abs(K), axes=(0, 0)) * (K ** 2).sum(0)
    return np.tensordot(xi, np.abs(K) ** 3, axes=(0, 0))


def generic_abs(K, coeffs):
    s = np.zeros(K.shape[1:])
    for j, a in enumerate(coeffs):
        s = s + abs(a) * (np.abs(K) ** j).sum(0)
    return s
