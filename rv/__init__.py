"""Runtime-verification machinery for Ceyron/exponax (see /verif/DESIGN.md)."""
