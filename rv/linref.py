"""Reference linear symbol of a *linear* stepper intent (independent of exponax)."""
import numpy as np
from rv.refmodel import symbols as S


def eff(it):
    """(L, dt) the documented reduction implies."""
    if "L" in it:
        return it["L"], it["dt"]
    return 1.0, 1.0


def difficulty_to_normalized(gammas, D, N):
    out = [g / (N ** j * 2 ** (j - 1) * D) for j, g in enumerate(gammas)]
    out[0] = gammas[0]
    return out


def symbol(it, K):
    """sigma(k) for physical wavenumbers K (D, ...)."""
    c, kw, D, N = it["cls"], it["kw"], it["D"], it["N"]
    if c == "stepper.Advection":
        return S.advection(K, kw.get("velocity", 1.0))
    if c == "stepper.Diffusion":
        return S.diffusion(K, kw.get("diffusivity", 0.01))
    if c == "stepper.AdvectionDiffusion":
        return S.advection(K, kw.get("velocity", 1.0)) + S.diffusion(K, kw.get("diffusivity", 0.01))
    if c == "stepper.Dispersion":
        return S.dispersion(K, kw.get("dispersivity", 1.0), kw.get("advect_on_diffusion", False))
    if c == "stepper.HyperDiffusion":
        return S.hyper_diffusion(K, kw.get("hyper_diffusivity", 1e-4), kw.get("diffuse_on_diffuse", False))
    if c == "generic.GeneralLinearStepper":
        return S.generic(K, kw.get("linear_coefficients", (0.0, -0.1, 0.01)))
    if c == "generic.NormalizedLinearStepper":
        return S.generic(K, kw.get("normalized_linear_coefficients", (0.0, -0.5, 0.01)))
    if c == "generic.DifficultyLinearStepper":
        return S.generic(K, difficulty_to_normalized(list(kw.get("linear_difficulties", (0.0, -2.0))), D, N))
    if c == "generic.DifficultyLinearStepperSimple":
        o = kw.get("order", 1)
        g = [0.0] * o + [kw.get("difficulty", -2.0)]
        return S.generic(K, difficulty_to_normalized(g, D, N))
    raise KeyError(c)


def symbol_abs(it, K):
    """Sum of magnitudes of the terms of sigma(k): the rounding scale of dt*sigma under cancellation."""
    c, kw, D, N = it["cls"], it["kw"], it["D"], it["N"]
    if c == "stepper.Advection":
        return S.advection_abs(K, kw.get("velocity", 1.0))
    if c == "stepper.Diffusion":
        return S.diffusion_abs(K, kw.get("diffusivity", 0.01))
    if c == "stepper.AdvectionDiffusion":
        return S.advection_abs(K, kw.get("velocity", 1.0)) + S.diffusion_abs(K, kw.get("diffusivity", 0.01))
    if c == "stepper.Dispersion":
        return S.dispersion_abs(K, kw.get("dispersivity", 1.0), kw.get("advect_on_diffusion", False))
    if c == "stepper.HyperDiffusion":
        return np.abs(S.hyper_diffusion(K, kw.get("hyper_diffusivity", 1e-4), kw.get("diffuse_on_diffuse", False)))
    if c == "generic.GeneralLinearStepper":
        return S.generic_abs(K, kw.get("linear_coefficients", (0.0, -0.1, 0.01)))
    if c == "generic.NormalizedLinearStepper":
        return S.generic_abs(K, kw.get("normalized_linear_coefficients", (0.0, -0.5, 0.01)))
    if c == "generic.DifficultyLinearStepper":
        return S.generic_abs(K, difficulty_to_normalized(list(kw.get("linear_difficulties", (0.0, -2.0))), D, N))
    if c == "generic.DifficultyLinearStepperSimple":
        o = kw.get("order", 1)
        g = [0.0] * o + [kw.get("difficulty", -2.0)]
        return S.generic_abs(K, difficulty_to_normalized(g, D, N))
    raise KeyError(c)


def scaled(it, n):
    """Intent of the same PDE with time step n*dt (for the n-steps == one-step check)."""
    it2 = dict(it, kw=dict(it["kw"]))
    if "dt" in it:
        it2["dt"] = it["dt"] * n
        return it2
    c = it["cls"]
    key = {"generic.NormalizedLinearStepper": "normalized_linear_coefficients",
           "generic.DifficultyLinearStepper": "linear_difficulties"}.get(c)
    if key:
        it2["kw"][key] = [x * n for x in it["kw"][key]]
        return it2
    if c == "generic.DifficultyLinearStepperSimple":
        it2["kw"]["difficulty"] = it["kw"]["difficulty"] * n
        return it2
    raise KeyError(c)


def wave_propagate(uh_full, K, c, t):
    """Exact propagator of h_tt = c^2 lap h written as (h, v=h_t), on a full spectrum (2, ...)."""
    om = c * np.sqrt((K ** 2).sum(0))
    h0, v0 = uh_full[0], uh_full[1]
    with np.errstate(divide="ignore", invalid="ignore"):
        s_over = np.where(om == 0, t, np.sin(om * t) / np.where(om == 0, 1.0, om))
    h1 = h0 * np.cos(om * t) + v0 * s_over
    v1 = -h0 * om * np.sin(om * t) + v0 * np.cos(om * t)
    return np.stack([h1, v1]), om
