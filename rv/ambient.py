"""Ambient workload: the repository's own (unedited) test-suite run under the *general* monitors.

pytest plugin:  RV_AMBIENT=C02,C08 RV_AMBIENT_OUT=<dir> pytest -p rv.ambient ...
General monitors judge any concrete call they see, whatever the caller does; calls made under tracing are counted and skipped.
Anything flagged here is, by construction, either a too-strict monitor or a defect the tests do not assert.
"""
import functools, inspect, json, os, sys
import numpy as np

_state = {}


def _concrete(*xs):
    import jax
    return not any(isinstance(x, jax.core.Tracer) for x in xs)


def _eps(dtype):
    return float(np.finfo(np.float32 if str(dtype) in ("float32", "complex64") else np.float64).eps)


def install(props, bus):
    from rv import env, taps
    import jax, jax.numpy as jnp
    import exponax as ex
    from rv.refmodel import grid as G
    taps.install_etdrk_ctor_taps(ex, bus)

    # ---------------------------------------------------------------- C02: exact phi coefficients of every integrator built anywhere
    if "C02" in props:
        from rv.props import c02
        for order, cls in ((1, ex.etdrk.ETDRK1), (2, ex.etdrk.ETDRK2), (3, ex.etdrk.ETDRK3), (4, ex.etdrk.ETDRK4)):
            prev = cls.__init__

            def make(prev, order):
                @functools.wraps(prev)
                def init(self, dt, linear_operator, nonlinear_fun, *, num_circle_points=16, circle_radius=1.0):
                    prev(self, dt, linear_operator, nonlinear_fun, num_circle_points=num_circle_points, circle_radius=circle_radius)
                    try:
                        if not _concrete(dt, linear_operator, self._coef_1):
                            bus.skip("ambient_coef_exact", "traced constructor")
                            return
                        Lop = np.asarray(linear_operator)
                        if Lop.size > 20000 or num_circle_points < 12:
                            bus.skip("ambient_coef_exact", "large array or coarse contour")
                            return
                        z = (Lop * np.asarray(dt, Lop.real.dtype)).astype(complex)
                        c02.judge_coefs(bus, "ambient_coef_exact", self, order, z, float(dt), _eps(Lop.dtype), (order, str(Lop.dtype)),
                                        dict(order=order, shape=list(Lop.shape), dt=float(dt), M=num_circle_points, r=circle_radius), M=num_circle_points, r=circle_radius)
                    except Exception as e:  # noqa: BLE001
                        bus.error("ambient_coef_exact", e)
                return init
            cls.__init__ = make(prev, order)

    # ---------------------------------------------------------------- stepper-call monitors
    call_props = {"C08", "C09", "C11", "C19", "C20"} & set(props)
    if call_props:
        orig_call = ex.BaseStepper.__call__
        counter = {"n": 0}
        MEAN = {"Advection", "Diffusion", "AdvectionDiffusion", "Dispersion", "HyperDiffusion", "Burgers", "KortewegDeVries", "KuramotoSivashinskyConservative",
                "KuramotoSivashinsky", "CahnHilliard", "NavierStokesVorticity"}
        FORCED = {"KolmogorovFlowVorticity", "KolmogorovFlowVelocity"}

        def call(self, u):
            out = orig_call(self, u)
            try:
                if not _concrete(u, out):
                    bus.tap("stepper_call:traced")
                    return out
                bus.tap("stepper_call:concrete")
                counter["n"] += 1
                name = type(self).__name__
                un, on = np.asarray(u, dtype=np.float64), np.asarray(out, dtype=np.float64)
                if not (np.all(np.isfinite(un)) and np.all(np.isfinite(on))):
                    bus.skip("ambient", "non-finite state in a test")
                    return out
                eps = _eps(out.dtype)
                D, N = self.num_spatial_dims, self.num_points
                logn = 1 + np.log2(max(2, N ** D))
                S = float(np.max(np.abs(un)) + np.max(np.abs(on))) + 1e-300
                rec = taps.etdrk_intent(self._integrator)
                z = None
                if rec is not None and _concrete(rec["linear_operator"], rec["dt"]):
                    z = np.asarray(rec["linear_operator"]).astype(complex) * float(rec["dt"])
                sig = (name, D, N % 2, str(out.dtype))
                if "C19" in props or "C20" in props:
                    ok = out.shape == u.shape and str(out.dtype) == str(jnp.asarray(0.0).dtype)
                    bus.judge("ambient_shape_dtype", 0.0 if ok else 1.0, 0.5, sig, witness=dict(cls=name, in_shape=list(u.shape), out_shape=list(out.shape), dtype=str(out.dtype)))
                if "C11" in props and z is not None and type(self._integrator).__name__ == "ETDRK0" and name != "Wave" and u.shape[0] == 1:
                    if float(np.max(z.real)) <= 0.0:
                        n0, n1 = float(np.sqrt(np.mean(un ** 2))), float(np.sqrt(np.mean(on ** 2)))
                        bus.judge("ambient_non_amplification", (n1 - n0) / (n0 + 1e-300), 64 * eps * logn, sig, sample=dict(cls=name, D=D, N=N, ratio=n1 / (n0 + 1e-300)), witness=dict(cls=name, D=D, N=N, n0=n0, n1=n1))
                    else:
                        bus.outside("ambient_non_amplification", "amplifying configuration")
                if "C09" in props and name in MEAN:
                    applicable = True
                    if name in ("Burgers", "KortewegDeVries", "KuramotoSivashinskyConservative"):
                        applicable = bool(getattr(self, "conservative", False) or getattr(self, "single_channel", False) or D == 1)
                    if name == "NavierStokesVorticity":
                        applicable = float(getattr(self, "drag", 0.0)) == 0.0
                    if applicable:
                        drift = float(np.max(np.abs(on.mean(axis=tuple(range(1, D + 1))) - un.mean(axis=tuple(range(1, D + 1))))))
                        bus.judge("ambient_mean_conserved", drift / S, 64 * eps * logn, sig, sample=dict(cls=name, D=D, N=N), witness=dict(cls=name, D=D, N=N, drift=drift, S=S))
                    else:
                        bus.outside("ambient_mean_conserved", "not conservation form")
                if "C08" in props and name not in FORCED and not (name == "GeneralVorticityConvectionStepper" and float(getattr(self, "injection_scale", 0.0)) != 0.0) and counter["n"] % 4 == 0:
                    rng = np.random.default_rng(counter["n"])
                    s = tuple(int(x) for x in rng.integers(0, N, size=D))
                    if any(s):
                        axes = tuple(range(1, D + 1))
                        got = np.asarray(orig_call(self, jnp.roll(u, s, axis=axes)), dtype=np.float64)
                        ref = np.roll(on, s, axis=axes)
                        # conditioning: how strongly does this very step amplify a perturbation of rounding size?
                        pert = np.asarray(orig_call(self, u * (1 + 8 * eps)), dtype=np.float64)
                        amp = float(np.max(np.abs(pert - on))) / (8 * eps * float(np.max(np.abs(un))) + 1e-300)
                        zi = float(np.max(np.abs(z.imag))) if z is not None else 0.0
                        tol = 256 * eps * logn * (1 + amp + zi)
                        bus.judge("ambient_translation", float(np.max(np.abs(got - ref))) / S, tol, sig, sample=dict(cls=name, D=D, N=N, shift=list(s), amplification=amp),
                                  witness=dict(cls=name, D=D, N=N, shift=list(s), err=float(np.max(np.abs(got - ref))), S=S, amplification=amp))
            except Exception as e:  # noqa: BLE001
                bus.error("ambient_call", e)
            return out
        ex.BaseStepper.__call__ = call

    # ---------------------------------------------------------------- C03: alias-free oracle on every concrete call of a built-in nonlinear function
    if "C03" in props:
        from fractions import Fraction
        from rv.refmodel import aliasfree as A
        nfm = ex.nonlin_fun
        FRACTION = {}
        base_init = nfm.BaseNonlinearFun.__init__

        def binit(self, num_spatial_dims, num_points, *, dealiasing_fraction=None):
            base_init(self, num_spatial_dims, num_points, dealiasing_fraction=dealiasing_fraction)
            FRACTION[id(self)] = dealiasing_fraction          # caller-side value, not the stored mask
        nfm.BaseNonlinearFun.__init__ = binit
        from exponax.stepper.reaction._cahn_hilliard import CahnHilliardNonlinearFun
        from exponax.stepper.reaction._gray_scott import GrayScottNonlinearFun
        cnt3 = {"n": 0}

        def describe(obj):
            n = type(obj).__name__
            if n == "ConvectionNonlinearFun":
                form = "conv_" + ("sc" if obj.single_channel else "mc") + ("_c" if obj.conservative else "_nc")
                return form, dict(scale=float(obj.scale)), False
            if n == "GradientNormNonlinearFun":
                return "gradnorm", dict(scale=float(obj.scale), zero_mode_fix=bool(obj.zero_mode_fix)), False
            if n == "PolynomialNonlinearFun":
                return "poly", dict(coefficients=[float(c) for c in obj.coefficients]), False
            if n == "VorticityConvection2d":
                return "vort2d", dict(scale=float(obj.convection_scale)), False
            if n == "ProjectedConvection3d":
                return "rot3d", dict(), True
            if n == "CahnHilliardNonlinearFun":
                return "cahn_hilliard", dict(scale=float(obj.scale)), False
            if n == "GrayScottNonlinearFun":
                return "gray_scott", dict(feed_rate=float(obj.feed_rate), kill_rate=float(obj.kill_rate)), False
            return None

        def wrap_call(cls):
            orig = cls.__call__

            def call(self, u_hat):
                out = orig(self, u_hat)
                try:
                    if type(self) is not cls or not _concrete(u_hat, out):
                        return out
                    cnt3["n"] += 1
                    desc = describe(self)
                    frac = FRACTION.get(id(self))
                    D, N = self.num_spatial_dims, self.num_points
                    if desc is None or frac is None or cnt3["n"] % 3 or N ** D > 5000 or N < 4:
                        return out
                    opname, params, project = desc
                    uh = np.asarray(u_hat)
                    if not np.all(np.isfinite(uh)) or not np.all(np.isfinite(np.asarray(out))):
                        return out
                    degree = len(params["coefficients"]) - 1 if opname == "poly" else (3 if opname in ("cahn_hilliard", "gray_scott") else 2)
                    fr = Fraction(float(frac)).limit_denominator(1000)
                    if degree >= 3 and fr > Fraction(1, 2) or degree == 2 and fr > Fraction(2, 3):
                        bus.outside("ambient_alias_free", "fraction does not remove the aliasing of this degree (outside the property)")
                        return out
                    dop = np.asarray(self.derivative_operator) if hasattr(self, "derivative_operator") else None
                    if dop is None and opname in ("cahn_hilliard",):
                        lap = np.asarray(self.laplace_operator)
                        L = float(2 * np.pi / np.sqrt(-lap[(0,) + (0,) * (D - 1) + (1,)].real))
                    elif dop is None:
                        L = 1.0          # no derivative in the operator: the extent does not enter
                    else:
                        L = float(2 * np.pi / abs(dop[(D - 1,) + (0,) * (D - 1) + (1,)].imag))
                    K = A.documented_cutoff(N, fr)
                    u = np.fft.irfftn(uh, s=(N,) * D, axes=tuple(range(-D, 0))).astype(np.float64)
                    ref, S, mask = A.evaluate(opname, params, u, D, N, L, K, project=project)
                    got = np.fft.fftn(np.fft.irfftn(np.asarray(out), s=(N,) * D, axes=tuple(range(-D, 0))), axes=tuple(range(-D, 0))) / N ** D
                    eps = _eps(uh.dtype)
                    err = float(np.max(np.abs(got - ref) * mask[None])) if mask.any() else 0.0
                    bus.judge("ambient_alias_free", err, 512 * eps * (1 + np.log2((4 * N) ** D)) * S, (type(self).__name__, opname, D, N % 12, str(fr)),
                              sample=dict(cls=type(self).__name__, op=opname, D=D, N=N, fraction=str(fr), params=params), witness=dict(cls=type(self).__name__, op=opname, D=D, N=N, L=L, fraction=str(fr), params=params, err=err, S=S))
                except Exception as e:  # noqa: BLE001
                    bus.error("ambient_alias_free", e)
                return out
            cls.__call__ = call
        for cls in (nfm.ConvectionNonlinearFun, nfm.GradientNormNonlinearFun, nfm.PolynomialNonlinearFun, nfm.VorticityConvection2d, nfm.ProjectedConvection3d, CahnHilliardNonlinearFun, GrayScottNonlinearFun):
            wrap_call(cls)

    # ---------------------------------------------------------------- C04: fft / ifft round trip on every concrete call of ex.fft
    if "C04" in props:
        import icontract
        orig_fft = ex.fft
        cnt = {"n": 0}

        def roundtrip_holds(field, num_spatial_dims, result):
            try:
                if not _concrete(field, result):
                    bus.tap("fft:traced")
                    return True
                cnt["n"] += 1
                if cnt["n"] % 3:
                    return True
                a = np.asarray(field)
                if not np.isrealobj(a) or not np.all(np.isfinite(a)) or a.ndim < 2:
                    return True
                D = num_spatial_dims if num_spatial_dims is not None else a.ndim - 1
                N = a.shape[-1]
                if any(x != N for x in a.shape[-D:]):
                    return True
                back = np.asarray(ex.ifft(result, num_spatial_dims=D, num_points=N))
                eps = _eps(a.dtype)
                ref = np.fft.rfftn(a.astype(np.float64), axes=tuple(range(-D, 0)))
                e1 = float(np.max(np.abs(back - a))) / (float(np.max(np.abs(a))) + 1e-300)
                e2 = float(np.max(np.abs(np.asarray(result) - ref))) / (float(np.max(np.abs(ref))) + 1e-300)
                bus.judge("ambient_fft_roundtrip", max(e1, e2), 64 * eps * (1 + np.log2(max(2, N ** D))), (D, N % 2, str(a.dtype)), sample=dict(D=D, N=N, dtype=str(a.dtype)), witness=dict(D=D, N=N, e_back=e1, e_forward=e2))
            except Exception as e:  # noqa: BLE001
                bus.error("ambient_fft", e)
            return True          # contracts record, they never abort the execution they observe

        class ContractBroken(Exception):
            pass
        wrapped = icontract.ensure(roundtrip_holds, error=ContractBroken)(orig_fft)
        for modname, mod in list(sys.modules.items()):
            if modname == "exponax" or modname.startswith("exponax."):
                for attr in ("fft",):
                    if getattr(mod, attr, None) is orig_fft:
                        setattr(mod, attr, wrapped)
                        bus.tap("fft:rebound")


def pytest_configure(config):
    props = [p for p in os.environ.get("RV_AMBIENT", "").split(",") if p]
    if not props:
        return
    sys.path.append(os.path.join(os.path.dirname(os.path.dirname(os.path.abspath(__file__))), ".deps"))
    from rv.bus import Bus
    bus = Bus("AMBIENT:" + ",".join(props))
    bus.case = dict(kind="ambient", props=props)
    _state["bus"] = bus
    install(props, bus)


def pytest_runtest_setup(item):
    bus = _state.get("bus")
    if bus is not None:
        bus.case = dict(kind="ambient", test=item.nodeid)


def pytest_sessionfinish(session, exitstatus):
    bus = _state.get("bus")
    out = os.environ.get("RV_AMBIENT_OUT")
    if bus is None or not out:
        return
    os.makedirs(out, exist_ok=True)
    wid = os.environ.get("PYTEST_XDIST_WORKER", "main")
    d = bus.dump()
    d["cases_done"] = 1
    d["cases_not_run"] = 0
    json.dump(d, open(os.path.join(out, f"ambient-{wid}.json"), "w"))
