"""Process bootstrap: locate the tree under test, third-party deps, precision."""
import os, sys, zlib

VERIF = os.path.dirname(os.path.dirname(os.path.abspath(__file__)))
REPO = os.environ.get("VERIF_REPO", "/repo")
DEPS = os.path.join(VERIF, ".deps")


def bootstrap(x64=True):
    """Put the tree under test first on sys.path, deps last; configure JAX."""
    if REPO not in sys.path:
        sys.path.insert(0, REPO)
    if DEPS not in sys.path:
        sys.path.append(DEPS)
    os.environ.setdefault("JAX_PLATFORMS", "cpu")
    os.environ.setdefault("EXPONAX_VERIF", "1")
    import jax

    jax.config.update("jax_enable_x64", bool(x64))
    import exponax

    root = os.path.dirname(os.path.abspath(exponax.__file__))
    if os.path.realpath(root) != os.path.realpath(os.path.join(REPO, "exponax")):
        raise RuntimeError(f"exponax imported from {root}, expected {REPO}/exponax")
    return exponax


def crc(s: str) -> int:
    return zlib.crc32(s.encode()) & 0xFFFFFFFF


def rng_for(*parts):
    """Deterministic generator from ints/strings; never Python's hash()."""
    import numpy as np

    seq = [p if isinstance(p, int) else crc(str(p)) for p in parts]
    return np.random.default_rng([abs(int(x)) for x in seq])
