"""C19  Steps stay finite and precision-faithful across stiffness and dtype.

Monitors:
  coef_finite      ETDRK1-4 coefficients and exp terms finite for Re(z) <= 0 up to |z| = 1e15 and at z = 0, float32 and float64 sessions
  session_precision  real symbols 0 .. -1e15 (incl. exact landmarks): coefficients are exact to the SESSION's rounding (reuses the C02 phi-function oracle)
  step_precision_x64  in the x64 session one whole step of every class agrees with the independent phi-form reference at the 1e-12 level
  result_dtype     every class x order: state results carry the session's default float dtype, spectra the matching complex dtype
  cross_precision  the same step in a float32 session vs float64 (same process, jax.enable_x64 context): difference <= c * eps32 * (measured amplification of the
                   step map + 1 + max|Im z|), the amplification being measured in float64 on the model side
  zero_state       zero maps to a finite state (exactly zero for unforced classes)
  stiff_finite     fine grids / high-order dissipation / large dt with |lambda dt| >= 1e6: O(1) states map to finite states
"""
import numpy as np
from rv import env, zoo, taps
from rv.refmodel import grid as G
from rv.props.c06 import make_states

PROP = "C19"
RULE = ("cases = ETDRK order x z family (down to -1e15, complex with Re z <= 0, exactly 0) x session; every exported class x D x order 0-4 x session; stiff configurations; distinct = "
        "(monitor, class | family, D, order, session); non-trivial = non-zero state / |z| range reaching >= 1e6")
REQUIRED = {"coef_finite": {"quick": 60, "thorough": 250}, "session_precision": {"quick": 100, "thorough": 300}, "step_precision_x64": {"quick": 50, "thorough": 200}, "result_dtype": {"quick": 150, "thorough": 600}, "cross_precision": {"quick": 70, "thorough": 300},
            "zero_state": {"quick": 70, "thorough": 300}, "stiff_finite": {"quick": 20, "thorough": 120}}
ASSUMPTIONS = ["the float64 reference of the cross-precision monitor is computed in the same process under jax.enable_x64(True)",
               "'never silently falls back to another precision' is decided jointly with the 1e-11-level float64 comparisons of the other monitors (a float32 detour inside a float64 session would show there)"]
AMBIENT = True            # thorough tier: the repository's own test-suite runs under this property's general monitor (rv/ambient.py)
REQUIRED_AMBIENT = {'ambient_shape_dtype': 1000}
TIMEOUT = {"quick": 2400, "thorough": 7200}
C32 = 64.0


def zfam(rng, fam, n):
    if fam == "real_stiff":
        return -(10.0 ** rng.uniform(0, 15, size=n)) + 0j
    if fam == "real_small":
        z = -(10.0 ** rng.uniform(-30, 0, size=n)) + 0j
        z[0] = 0.0
        return z
    if fam == "imag":
        return 1j * rng.choice([-1, 1], size=n) * 10.0 ** rng.uniform(-12, 15, size=n)
    if fam == "lhp_stiff":
        return 10.0 ** rng.uniform(0, 15, size=n) * np.exp(1j * rng.uniform(np.pi / 2, 3 * np.pi / 2, size=n))
    if fam == "zeros":
        return np.zeros(n, complex)
    if fam == "landmarks":      # exactly representable negative reals: -1 (where an un-rotated contour of radius 1 would have a node), powers of two and ten, near misses
        base = np.concatenate([[-1.0, -0.5, -2.0, -0.25, -4.0, -1.0 - 2.0 ** -20, -1.0 + 2.0 ** -20, -0.999, -1.001], -(2.0 ** np.arange(3, 50, 2)), -(10.0 ** np.arange(1, 16)), -np.linspace(12.0, 40.0, 15)])
        return np.tile(base, int(np.ceil(n / len(base))))[:n].astype(complex)
    if fam == "contour_nodes":      # |z| = r on the nodes of the documented contour (left half plane): see known finding F9
        from rv.refmodel import phi as P
        nodes = -P.roots(16)
        nodes = nodes[nodes.real <= 0]
        return np.tile(nodes, int(np.ceil(n / len(nodes))))[:n].astype(complex)
    raise KeyError(fam)


def cases(tier, seed):
    out = []
    for order in (1, 2, 3, 4):
        for fam in ("real_stiff", "real_small", "imag", "lhp_stiff", "zeros", "landmarks", "contour_nodes"):
            for x64 in (True, False):
                for rep in range(1 if tier == "quick" else 3):
                    out.append(dict(kind="coef", order=order, fam=fam, x64=x64, rs=[seed, env.crc(fam), order, int(x64), rep], cost=1))
    for name, spec in zoo.SPECS.items():
        for D in spec["dims"]:
            if tier == "quick" and D == 3 and spec["dims"] != (3,) and env.crc(name) % 3:
                continue
            orders = [None] if spec["linear"] else ([0, 1 + env.crc(name) % 4] if tier == "quick" else [0, 1, 2, 3, 4])
            for o in orders:
                for x64 in (True, False):
                    out.append(dict(kind="cls", cls=name, D=D, order=o, x64=x64, rs=[seed, env.crc(name), D, o or 0], cost={1: 1, 2: 2, 3: 4}[D]))
    for i in range(12 if tier == "quick" else 40):
        for x64 in (True, False):
            out.append(dict(kind="stiff", i=i, x64=x64, rs=[seed, i, 3], cost=2))
    return out


def run_coef(case, bus, ex):
    import jax.numpy as jnp
    rng = env.rng_for(*case["rs"])
    order, fam, x64 = case["order"], case["fam"], case["x64"]
    n = 64
    z = zfam(rng, fam, n)
    cd = np.complex128 if x64 else np.complex64
    for dt in (1.0, float(10 ** rng.uniform(-3, 3))):
        Lop = (z / dt).astype(cd).reshape(1, n)
        integ = getattr(ex.etdrk, f"ETDRK{order}")(dt, jnp.asarray(Lop), ex.nonlin_fun.ZeroNonlinearFun(1, 2 * (n - 1)))
        bad = []
        for nm in ["_exp_term"] + [f"_coef_{i}" for i in range(1, 7)] + ["_half_exp_term"]:
            if hasattr(integ, nm):
                a = np.asarray(getattr(integ, nm))
                if not np.all(np.isfinite(a)):
                    bad.append((nm, complex(z[np.argmax(~np.isfinite(a.reshape(-1)))])))
                want = "complex128" if x64 else "complex64"
                if str(a.dtype) not in (want, "float64" if x64 else "float32"):
                    bad.append((nm, "dtype " + str(a.dtype)))
        bus.judge("coef_finite", float(len(bad)), 0.5, (order, fam, "x64" if x64 else "f32", dt == 1.0), sample=dict(order=order, family=fam, dt=dt, zmax=float(np.max(np.abs(z)))),
                  witness=dict(order=order, family=fam, dt=dt, bad=[(a, str(b)) for a, b in bad], on_contour_node=(fam == "contour_nodes")), nontrivial=float(np.max(np.abs(z))) >= 1e6 or fam in ("zeros", "real_small"))
        if fam in ("real_stiff", "landmarks", "real_small"):
            # precision-faithfulness: in either session the coefficients carry the session's precision (a hard-wired float32 shortcut in an x64 session would show here)
            from rv.props import c02
            c02.judge_coefs(bus, "session_precision", integ, order, (Lop.astype(cd) * cd(dt)).astype(cd).astype(complex), dt, float(np.finfo(np.float64 if x64 else np.float32).eps),
                            (order, fam, "x64" if x64 else "f32"), dict(order=order, family=fam, dt=dt, session="x64" if x64 else "f32"))
        # and a step through it stays finite
        u_hat = jnp.asarray((rng.normal(size=(1, n)) + 1j * rng.normal(size=(1, n))).astype(cd))
        o = np.asarray(integ.step_fourier(u_hat))
        bus.judge("coef_finite", 0.0 if np.all(np.isfinite(o)) else 1.0, 0.5, (order, fam, "x64" if x64 else "f32", "step"), witness=dict(order=order, family=fam, dt=dt, on_contour_node=(fam == "contour_nodes")))


def run_cls(case, bus, ex):
    import jax, jax.numpy as jnp
    taps.install_etdrk_ctor_taps(ex, bus)
    rng = env.rng_for(*case["rs"])
    name, D, order, x64 = case["cls"], case["D"], case["order"], case["x64"]
    N = zoo.nontrivial_N(name, {1: 16, 2: 8, 3: 6}[D])
    it = zoo.make_intent(rng, name, D, N, variant=int(rng.integers(0, zoo.SPECS[name]["nvar"])), order=order)
    U = make_states(rng, it, 2)
    sess = "x64" if x64 else "f32"
    fdt, cdt = ("float64", "complex128") if x64 else ("float32", "complex64")
    st = zoo.build(ex, it)
    sig = (name, D, order, sess)
    info = dict(intent=it, session=sess)
    u = jnp.asarray(U[0])
    o = st(u)
    oh = st.step_fourier(ex.fft(u))
    ok = str(u.dtype) == fdt and str(o.dtype) == fdt and str(oh.dtype) == cdt and o.shape == u.shape
    bus.judge("result_dtype", 0.0 if ok else 1.0, 0.5, sig, sample=dict(info, dtypes=[str(u.dtype), str(o.dtype), str(oh.dtype)]), witness=dict(info, dtypes=[str(u.dtype), str(o.dtype), str(oh.dtype)], expected=[fdt, fdt, cdt]))
    tr = ex.rollout(st, 2)(u)
    bus.judge("result_dtype", 0.0 if str(tr.dtype) == fdt else 1.0, 0.5, sig + ("rollout",), witness=dict(info, dtype=str(tr.dtype)))
    # states that arrive in another dtype (an integer mask, a float32 array loaded from disk in an x64 session) still give results in the session's
    # float dtype - no silent fall back to the precision (or integer-ness) of the input - and the values of the step of the converted state
    others = [("int32", jnp.asarray(np.round(2 * U[0]).astype(np.int32)))]
    if x64:
        others.append(("float32", jnp.asarray(U[0].astype(np.float32))))
    for dn, v in others:
        ov = st(v)
        want = np.asarray(st(jnp.asarray(np.asarray(v), dtype=fdt)))
        okv = str(ov.dtype) == fdt and ov.shape == v.shape
        errv = float(np.max(np.abs(np.asarray(ov) - want))) / (float(np.max(np.abs(want))) + 1e-30) if okv and np.all(np.isfinite(want)) else (0.0 if okv else np.inf)
        bus.judge("result_dtype", errv if okv else 1.0, 1e-5 if x64 else 1e-3, sig + ("state given as " + dn,), witness=dict(info, state_dtype=dn, result_dtype=str(ov.dtype), expected=fdt, rel_dev=errv))
    # zero state
    z = np.asarray(st(jnp.zeros_like(u)))
    forced = zoo.SPECS[name].get("forced") is True or (name == "generic.GeneralVorticityConvectionStepper" and it["kw"].get("injection_scale", 0.0) != 0.0)
    polyconst = any(k in it["kw"] and abs(it["kw"][k][0]) > 0 for k in ("polynomial_coefficients", "normalized_polynomial_coefficients", "polynomial_difficulties")) or name == "reaction.GrayScott"
    okz = np.all(np.isfinite(z)) and (forced or polyconst or order == 0 and False or float(np.max(np.abs(z))) == 0.0)
    bus.judge("zero_state", 0.0 if okz else 1.0, 0.5, sig + ("forced" if (forced or polyconst) else "unforced",), sample=dict(info, max_abs=float(np.max(np.abs(z)))), witness=dict(info, max_abs=float(np.max(np.abs(z)))))
    if x64:
        # ---- double-precision faithfulness of a whole step: independent phi-form reference (mpmath phi functions, the stepper's own nonlinear term as a black box).
        # A float32 detour anywhere inside the step of an x64 session shows up here at the 1e-7 level while every dtype stays *64.
        from rv.refmodel import etdrk_ref as R
        integ = st._integrator
        rec = taps.etdrk_intent(integ)
        if rec is not None and N ** D <= 600 and name != "stepper.Wave":      # Wave overrides step_fourier (its exact propagator is judged in C01)
            Lop = np.asarray(rec["linear_operator"]).astype(complex)
            dtv = float(rec["dt"])
            uh = np.fft.rfftn(U[0], axes=G.axes(D))
            nf = getattr(integ, "_nonlinear_fun", None)
            Nf = (lambda w: np.asarray(nf(jnp.asarray(w)))) if nf is not None else (lambda w: 0 * w)
            ref = R.step(rec["order"], dtv, Lop, Nf, uh)
            got = np.asarray(st.step_fourier(jnp.asarray(uh)))
            Sx = float(np.max(np.abs(uh)) + abs(dtv) * np.max(np.abs(Nf(uh)))) + 1e-300
            bus.judge("step_precision_x64", float(np.max(np.abs(got - ref))) / Sx, 4e-12 * (1 + min(float(np.max(np.abs(dtv * Lop))), 1e3)), sig, sample=dict(info, S=Sx), witness=dict(info, err=float(np.max(np.abs(got - ref))), S=Sx))
        return
    # ---- cross precision (this is the float32 session): reference and amplification in float64
    o32 = np.asarray(o).astype(np.float64)
    with jax.enable_x64(True):
        st64 = zoo.build(ex, it)
        u64 = jnp.asarray(U[0])
        o64 = np.asarray(st64(u64))
        rec = taps.etdrk_intent(st64._integrator)
        zz = np.asarray(rec["linear_operator"]).astype(complex) * float(rec["dt"])
        # mixed sessions in one process: an x64 stepper built AFTER a float32 stepper on the same grid must still be double-precise (no state carried over)
        from rv.refmodel import etdrk_ref as R
        if name != "stepper.Wave" and N ** D <= 600:
            Lop64 = np.asarray(rec["linear_operator"])
            uh64 = np.fft.rfftn(U[0], axes=G.axes(D))
            nf64 = getattr(st64._integrator, "_nonlinear_fun", None)
            Nf64 = (lambda w: np.asarray(nf64(jnp.asarray(w)))) if nf64 is not None else (lambda w: 0 * w)
            ref64 = R.step(rec["order"], float(rec["dt"]), Lop64.astype(complex), Nf64, uh64)
            got64 = np.asarray(st64.step_fourier(jnp.asarray(uh64)))
            Sx = float(np.max(np.abs(uh64)) + abs(float(rec["dt"])) * np.max(np.abs(Nf64(uh64)))) + 1e-300
            okd = str(Lop64.dtype) == "complex128" and str(got64.dtype) == "complex128"
            bus.judge("step_precision_x64", float(np.max(np.abs(got64 - ref64))) / Sx if okd else np.inf, 4e-12 * (1 + min(float(np.max(np.abs(zz))), 1e3)), sig + ("x64 after f32 in one process",),
                      witness=dict(info, what="x64 stepper built after a float32 stepper on the same grid", dtypes=[str(Lop64.dtype), str(got64.dtype)]))
        amp = 0.0
        for _ in range(3):
            d = rng.normal(size=U[0].shape)
            d *= 1e-6 / np.max(np.abs(d))
            amp = max(amp, float(np.max(np.abs(np.asarray(st64(jnp.asarray(U[0] + d))) - o64))) / 1e-6)
    if not np.all(np.isfinite(o64)):
        bus.skip("cross_precision", "float64 reference not finite")
        return
    eps32 = float(np.finfo(np.float32).eps)
    S = float(np.max(np.abs(U[0])) + np.max(np.abs(o64)))
    g = 1.0 + amp + float(np.max(np.abs(zz.imag))) * min(1.0, float(np.exp(min(np.max(zz.real), 0.0)))) + np.log2(N ** D)
    err = float(np.max(np.abs(o32 - o64))) / S
    bus.judge("cross_precision", err, C32 * eps32 * g, sig, sample=dict(info, err_in_eps32=err / eps32, amplification=amp, g=g), witness=dict(info, err_in_eps32=err / eps32, amplification=amp, g=g))


STIFF = [("stepper.HyperDiffusion", dict(hyper_diffusivity=1.0)), ("stepper.Diffusion", dict(diffusivity=5.0)), ("stepper.KuramotoSivashinsky", dict(order=2)),
         ("stepper.KuramotoSivashinsky", dict(order=4)), ("stepper.Burgers", dict(diffusivity=10.0, order=3)), ("reaction.CahnHilliard", dict(order=2, gamma=1.0, diffusivity=1.0)),
         ("reaction.SwiftHohenberg", dict(order=4)), ("stepper.KortewegDeVries", dict(order=4, hyper_diffusivity=1.0)), ("generic.GeneralNonlinearStepper", dict(linear_coefficients=(0.0, 0.0, 1.0, 0.0, -1.0, 0.0, 1e-3), order=2)),
         ("stepper.NavierStokesVorticity", dict(diffusivity=10.0, order=2)), ("stepper.AdvectionDiffusion", dict(velocity=100.0, diffusivity=3.0)), ("reaction.AllenCahn", dict(diffusivity=10.0, order=1))]


def run_stiff(case, bus, ex):
    import jax.numpy as jnp
    taps.install_etdrk_ctor_taps(ex, bus)
    rng = env.rng_for(*case["rs"])
    name, kw = STIFF[case["i"] % len(STIFF)]
    D = 2 if name.endswith("Vorticity") else int(rng.choice([1, 1, 2]))
    N = {1: int(rng.choice([64, 128, 255])), 2: int(rng.choice([24, 33]))}[D]
    L = float(rng.choice([1.0, 0.1, 2 * np.pi]))
    dt = float(10 ** rng.uniform(-1, 3))
    st = zoo.get_class(ex, name)(D, L, N, dt, **kw)
    rec = taps.etdrk_intent(st._integrator)
    zz = np.asarray(rec["linear_operator"]).astype(complex) * float(rec["dt"])
    zmax = float(np.max(np.abs(zz)))
    C = st.num_channels
    sess = "x64" if case["x64"] else "f32"
    for kind in ("smooth", "white", "zero"):
        u = G.random_state(rng, kind, C, D, N, amp=0.5)
        o = np.asarray(st(jnp.asarray(u)))
        grow = float(np.max(zz.real))
        if grow > 20:
            bus.outside("stiff_finite", "configuration has strongly growing modes")
            continue
        bus.judge("stiff_finite", 0.0 if np.all(np.isfinite(o)) else 1.0, 0.5, (name, D, sess, kind, "1e6+" if zmax >= 1e6 else "<1e6"), sample=dict(cls=name, kw={k: (list(v) if isinstance(v, tuple) else v) for k, v in kw.items()}, D=D, N=N, L=L, dt=dt, zmax=zmax, state=kind),
                  witness=dict(cls=name, D=D, N=N, L=L, dt=dt, zmax=zmax, state=kind), nontrivial=zmax >= 1e6 and kind != "zero")


def run_case(case, bus, ex):
    return {"coef": run_coef, "cls": run_cls, "stiff": run_stiff}[case["kind"]](case, bus, ex)


def classify(v):
    w = v.get("witness") or {}
    if v["monitor"] == "coef_finite" and w.get("on_contour_node"):
        return "F9-contour-node-breakdown"
    return None
