"""C01  Linear steppers advance band-limited states by the exact PDE solution.

Monitors (oracle = analytic symbol rebuilt from the caller's intent, closed-form trig polynomials):
  multiplier     step_fourier on all-ones and on random Hermitian spectra == exp(dt sigma(k)) u_hat on
                 every stored mode without Nyquist component
  closed_form    st(u) for u = sum a cos(k.x+phi) == analytic solution on the model's own grid
  single_mode    every single mode below Nyquist (batched through vmap), physical space
  n_steps        n calls with dt == one call with n*dt (history of the real rollout)
  reversal       step(-dt) o step(dt) == id for the non-dissipative equations
  wave_*         exact 2x2 propagator incl. the k=0 drift
"""
import numpy as np
from rv import env, zoo, linref
from rv.refmodel import grid as G

PROP = "C01"
RULE = ("cases = linear class variant x D x N(odd/even) x L x dt(+-,1e-4..1e6) x coefficient draw; an event is one "
        "comparison of a real call with the analytic model; distinct = (monitor, class, variant flags, D, N parity, "
        "dt regime, state class); non-trivial = at least one judged mode with k != 0")
REQUIRED = {"multiplier": {"quick": 60, "thorough": 400}, "closed_form": {"quick": 40, "thorough": 300},
            "single_mode": {"quick": 20, "thorough": 100}, "n_steps": {"quick": 20, "thorough": 100},
            "reversal": {"quick": 8, "thorough": 40}, "wave_propagator": {"quick": 6, "thorough": 30}}
ASSUMPTIONS = ["float64 session", "states strictly below Nyquist (classified by the model's own full FFT)",
               "modes with |Re dt*sigma| > 600 are overflow-skipped"]
TIMEOUT = {"quick": 2400, "thorough": 7200}

LINEAR = [n for n, s in zoo.SPECS.items() if s["linear"] and n != "stepper.Wave"]
EPS = np.finfo(np.float64).eps


def dt_draw(rng, tier):
    r = rng.uniform()
    if r < 0.25:
        mag = 10 ** rng.uniform(-4, -1)
    elif r < 0.7:
        mag = 10 ** rng.uniform(-1, 2)
    else:
        mag = 10 ** rng.uniform(2, 6)
    return float(mag * (1 if rng.uniform() < 0.75 else -1))


def cases(tier, seed):
    out = []
    rng = env.rng_for(seed, PROP, "cases")
    for name in LINEAR + ["stepper.Wave"]:
        spec = zoo.SPECS[name]
        for D in (1, 2, 3):
            if tier == "quick":
                Ns = {1: [5, 8, 12], 2: [5, 6], 3: [4, 5]}[D]
                reps = 1
            else:
                Ns = {1: list(range(3, 14)) + [32, 33], 2: list(range(3, 12)), 3: list(range(3, 10))}[D]
                reps = 2
            for N in Ns:
                for rep in range(reps if name != "stepper.Wave" else reps + 2):        # Wave is one class with few cases: extra repetitions so that every box size of run_case (incl. L = 40 > 4 pi |k|) is reached in every D
                    for v in range(spec["nvar"]):
                        out.append(dict(kind="lin" if name != "stepper.Wave" else "wave", cls=name, D=D, N=N, v=v,
                                        rs=[seed, env.crc(name), D, N, v, rep], cost=N ** D))
    for name in ("generic.GeneralLinearStepper", "generic.NormalizedLinearStepper", "generic.DifficultyLinearStepper"):        # the same classes typed with Python ints
        for D in (1, 2, 3):
            for N in ({1: [9, 12], 2: [6, 7], 3: [5]} if tier == "quick" else {1: [7, 9, 12, 16], 2: [5, 6, 7, 8], 3: [4, 5, 6]})[D]:
                out.append(dict(kind="lin", cls=name, D=D, N=N, v=N % zoo.SPECS[name]["nvar"], ints=True, rs=[seed, env.crc(name), D, N, 99, 0], cost=N ** D))
    for x64 in (True, False):       # documented showcase configurations (docs/examples/solver_showcase_1d), 200-step rollouts, x64 and default float32 sessions
        for which in ("advection", "advection_diffusion", "dispersion", "general_linear", "diffusion_sines", "hyper_diffusion_sines", "wave_standing"):
            out.append(dict(kind="showcase", which=which, x64=x64, rs=[seed, env.crc(which)], cost=8))
    return out


def run_showcase(case, bus, ex):
    """History checker on the documented 1D showcase set-ups: every 10th state of a 200-step jit-ed rollout against the closed form."""
    import jax, jax.numpy as jnp
    which, x64 = case["which"], case["x64"]
    N, n = 100, 200
    S_ = ex.stepper
    sin = lambda m, a=1.0: ((m,), a, -np.pi / 2)          # a sin(2 pi m x / L) as a cosine term
    if which == "advection":
        it = dict(cls="stepper.Advection", D=1, N=N, L=1.0, dt=0.01, kw=dict(velocity=1.0)); terms = [sin(1)]
    elif which == "advection_diffusion":
        it = dict(cls="stepper.AdvectionDiffusion", D=1, N=N, L=1.0, dt=0.01, kw=dict(velocity=1.0, diffusivity=0.001)); terms = [sin(5)]
    elif which == "dispersion":
        it = dict(cls="stepper.Dispersion", D=1, N=N, L=1.0, dt=0.01, kw=dict(dispersivity=0.01)); terms = [sin(1), sin(2)]
    elif which == "general_linear":
        it = dict(cls="generic.GeneralLinearStepper", D=1, N=N, L=1.0, dt=0.01, kw=dict(linear_coefficients=[-0.01, -0.3, 0.001, -0.0001, -0.00001])); terms = [sin(1), sin(2)]
    elif which == "diffusion_sines":
        it = dict(cls="stepper.Diffusion", D=1, N=N, L=1.0, dt=0.01, kw=dict(diffusivity=0.01)); terms = [sin(1), sin(7, 0.5), ((0,), 0.3, 0.0)]
    elif which == "hyper_diffusion_sines":
        it = dict(cls="stepper.HyperDiffusion", D=1, N=N, L=1.0, dt=0.01, kw=dict(hyper_diffusivity=0.0001)); terms = [sin(1), sin(3, 0.5)]
    else:
        it = None
    eps = float(np.finfo(np.float64 if x64 else np.float32).eps)
    sess = "x64" if x64 else "f32"
    if it is not None:
        st = zoo.build(ex, it)
        tp = G.TrigPoly(1, it["L"], [list(terms)])
        u0 = tp.on_grid(N)
        trj = np.asarray(jax.jit(ex.rollout(st, n, include_init=True))(jnp.asarray(u0))).astype(np.float64)
        for i in range(0, n + 1, 10):
            t = i * it["dt"]
            sol = tp.mapped(lambda kp: np.exp(t * complex(linref.symbol(it, kp.reshape((1,))))))
            za = max(t * float(linref.symbol_abs(it, np.array(k, float).reshape((1,)) * 2 * np.pi / it["L"])) for k, _, _ in tp.terms[0])
            tol = 64 * eps * (1 + za + i) * (1 + np.log2(N)) * tp.scale()
            bus.judge("closed_form", float(np.max(np.abs(trj[i] - sol.on_grid(N)))), tol, ("showcase:" + which, sess, "step<=100" if i <= 100 else "step>100"),
                      sample=dict(workload=which, session=sess, step=i) if i == n else None, witness=dict(workload=which, session=sess, step=i, intent=it))
        return
    # standing wave of the documented Wave set-up: h0 = cos(3x), v0 = 0 on L = 2 pi -> h = cos(3x) cos(3 c t), v = -3c cos(3x) sin(3 c t)
    L, dt, c = 2 * np.pi, 0.1, 1.0
    st = S_.Wave(1, L, N, dt, speed_of_sound=c)
    x = np.arange(N) * L / N
    u0 = np.stack([np.cos(3 * x), np.zeros(N)])
    trj = np.asarray(jax.jit(ex.rollout(st, n, include_init=True))(jnp.asarray(u0))).astype(np.float64)
    for i in range(0, n + 1, 10):
        t = i * dt
        ref = np.stack([np.cos(3 * x) * np.cos(3 * c * t), -3 * c * np.cos(3 * x) * np.sin(3 * c * t)])
        tol = 64 * eps * (1 + 3 * c * t + i) * (1 + np.log2(N)) * 3
        bus.judge("wave_propagator", float(np.max(np.abs(trj[i] - ref))), tol, ("showcase:wave_standing", sess, "step<=100" if i <= 100 else "step>100"),
                  witness=dict(workload=which, session=sess, step=i))


def regime(z):
    m = float(np.max(np.abs(z))) if z.size else 0.0
    return "mild" if m < 1 else ("stiff" if m < 1e3 else "extreme")


def run_case(case, bus, ex):
    import jax, jax.numpy as jnp
    if case["kind"] == "showcase":
        return run_showcase(case, bus, ex)
    rng = env.rng_for(*case["rs"])
    name, D, N, v = case["cls"], case["D"], case["N"], case["v"]
    L = float([1.0, 2 * np.pi, 0.37, 11.0, 40.0, 10 ** rng.uniform(-2, 2)][(N + D + v + case["rs"][-1]) % 6])        # box sizes below and above 2 pi are reached deterministically
    if case["kind"] == "showcase":
        return run_showcase(case, bus, ex)
    if case["kind"] == "wave":
        return run_wave(case, bus, ex, rng, L)
    it = zoo.make_intent(rng, name, D, N, L=L, dt=dt_draw(rng, None), variant=v)
    if case.get("ints"):
        zoo.intify(it)
    st = zoo.build(ex, it)
    Lr, dtr = linref.eff(it)
    kr = G.kint_rfft(D, N)
    K = kr * (2 * np.pi / Lr)
    z = dtr * linref.symbol(it, K)
    nyq = G.nyquist_mask(kr, N)
    with np.errstate(over="ignore"):
        ref = np.exp(z)
    okm = (~nyq) & (np.abs(z.real) < 600)
    flags = tuple(sorted((k, x) for k, x in it["kw"].items() if isinstance(x, bool)))
    form = tuple(sorted((k, np.ndim(x)) for k, x in it["kw"].items() if not isinstance(x, bool)))
    base_sig = (name, flags, form, D, N % 2, regime(z[okm]), "dt<0" if dtr < 0 else "dt>0")
    zabs = abs(dtr) * linref.symbol_abs(it, K)
    tolz = 256 * EPS * (1 + zabs)
    grow = float(np.max(z.real))            # growth of the fastest-growing grid mode (Nyquist included)
    noisy = grow > 25.0                      # rounding noise in unresolved modes is amplified by e^grow: ill-posed
    def sym1(k):
        kp = (np.array(k, float) * 2 * np.pi / Lr).reshape((D,))
        return dtr * complex(linref.symbol(it, kp)), abs(dtr) * float(linref.symbol_abs(it, kp))

    # ---- multiplier: all-ones spectrum and a random Hermitian spectrum
    ones = jnp.ones((1,) + kr.shape[1:], dtype=complex)
    m = np.asarray(st.step_fourier(ones))[0]
    bus.tap("step_fourier")
    if okm.sum() == 0:
        bus.skip("multiplier", "all modes overflow")
    else:
        rel = np.abs(m - ref)[okm] / (tolz[okm] * np.abs(ref[okm]) + 1e-300)
        i = int(np.argmax(rel))
        bus.judge("multiplier", float(rel[i]), 1.0, base_sig + ("ones",),
                  sample=dict(intent=it, modes_judged=int(okm.sum()), overflow_skipped=int((~okm & ~nyq).sum())),
                  witness=dict(intent=it, k=kr[:, okm][:, i].tolist(), got=complex(m[okm][i]), ref=complex(ref[okm][i])),
                  nontrivial=bool(np.any(np.abs(kr[:, okm]).sum(0) > 0)))
    u = G.random_state(rng, "white", 1, D, N)
    uh = np.fft.rfftn(u, axes=G.axes(D))
    got = np.asarray(st.step_fourier(jnp.asarray(uh)))
    if okm.sum():
        sc = np.abs(uh[0]) * np.abs(ref) + 1e-300
        rel = (np.abs(got[0] - ref * uh[0]) / (tolz * sc + 1e-300))[okm]
        bus.judge("multiplier", float(rel.max()), 1.0, base_sig + ("hermitian",),
                  witness=dict(intent=it, worst=float(rel.max())))

    # ---- closed form in physical space
    zfull_max = float(np.max(np.abs(z[okm]))) if okm.sum() else 0.0
    for nterms, label in ((1, "single"), (5, "superposition")):
        tp = G.random_trigpoly(rng, D, Lr, N, C=1, nterms=nterms)
        zz = [sym1(k)[0] for k, _, _ in tp.terms[0]]
        za = max(sym1(k)[1] for k, _, _ in tp.terms[0])
        if max(abs(x.real) for x in zz) > 600 or noisy:
            bus.skip("closed_form", "overflow or backward-parabolic noise amplification")
            continue
        sol = tp.mapped(lambda kp: np.exp(dtr * complex(linref.symbol(it, kp.reshape((D,))))))
        u0 = tp.on_grid(N)
        got = np.asarray(st(jnp.asarray(u0)))
        bus.tap("__call__")
        refu = sol.on_grid(N)
        S = max(tp.scale(), sol.scale())
        tol = 256 * EPS * (1 + za) * (1 + np.log2(N ** D)) * S * max(1.0, np.exp(grow))
        err = float(np.max(np.abs(got - refu)))
        bus.judge("closed_form", err, tol, base_sig + (label,), sample=dict(intent=it, poly=tp.describe()),
                  witness=dict(intent=it, poly=tp.describe(), err=err),
                  nontrivial=any(any(k) for k, _, _ in tp.terms[0]))

    # ---- every single mode below Nyquist (batched)
    modes = G.all_modes_below_nyquist(D, N)
    if len(modes) > 40:
        sel = rng.choice(len(modes), size=40, replace=False)
        modes = [modes[i] for i in sel]
    X = G.grid(D, Lr, N)
    U0, REF, keep = [], [], []
    for k in modes:
        kp = np.array(k, float) * 2 * np.pi / Lr
        zk, zka = sym1(k)
        if abs(zk.real) > 600 or noisy:
            continue
        ph = float(rng.uniform(0, 2 * np.pi))
        arg = sum(kp[d] * X[d] for d in range(D))
        mk = np.exp(zk)
        U0.append(np.cos(arg + ph)[None])
        REF.append((abs(mk) * np.cos(arg + ph + np.angle(mk)))[None])
        keep.append((k, zk, zka))
    if keep:
        got = np.asarray(jax.vmap(st)(jnp.asarray(np.stack(U0))))
        bus.tap("__call__", len(keep))
        errs = np.max(np.abs(got - np.stack(REF)).reshape(len(keep), -1), axis=1)
        tols = np.array([256 * EPS * (1 + zka) * (1 + np.log2(N ** D)) * max(1.0, np.exp(grow)) for _, zk, zka in keep])
        i = int(np.argmax(errs / tols))
        bus.judge("single_mode", float(errs[i] / tols[i]), 1.0, base_sig + ("modes", len(keep) == len(G.all_modes_below_nyquist(D, N))),
                  sample=dict(intent=it, modes=len(keep)), witness=dict(intent=it, k=list(keep[i][0]), err=float(errs[i]), tol=float(tols[i])))

    # ---- history: n steps == one step of n*dt ; reversal
    tp = G.random_trigpoly(rng, D, Lr, N, C=1, nterms=4)
    u0 = tp.on_grid(N)
    for n in (2, 5, 17):
        zmax = n * max(sym1(k)[1] for k, _, _ in tp.terms[0])
        gro = n * grow
        if gro > 25:
            bus.skip("n_steps", "backward-parabolic noise amplification")
            continue
        trj = np.asarray(ex.rollout(st, n)(jnp.asarray(u0)))
        big = zoo.build(ex, linref.scaled(it, n))
        one = np.asarray(big(jnp.asarray(u0)))
        S = tp.scale() * max(1.0, float(np.exp(max(gro, 0))))
        tol = 256 * EPS * (1 + zmax) * n * (1 + np.log2(N ** D)) * S
        bus.judge("n_steps", float(np.max(np.abs(trj[-1] - one))), tol, base_sig + (n,),
                  witness=dict(intent=it, n=n, poly=tp.describe()))
    if float(np.max(np.abs(z.real))) <= 1e-13 * (1 + float(np.max(zabs))):
        back = zoo.build(ex, linref.scaled(it, -1))
        rt = np.asarray(back(st(jnp.asarray(u0))))
        zmax = max(sym1(k)[1] for k, _, _ in tp.terms[0])
        tol = 512 * EPS * (1 + zmax) * (1 + np.log2(N ** D)) * tp.scale()
        bus.judge("reversal", float(np.max(np.abs(rt - u0))), tol, base_sig, witness=dict(intent=it, poly=tp.describe()))


def run_wave(case, bus, ex, rng, L):
    import jax.numpy as jnp
    D, N = case["D"], case["N"]
    it = zoo.make_intent(rng, "stepper.Wave", D, N, L=L, dt=dt_draw(rng, None))
    c, dt = it["kw"]["speed_of_sound"], it["dt"]
    # keep |omega dt| <= 1e6 so the tolerance stays meaningful
    kmaxp = 2 * np.pi / L * (N // 2) * np.sqrt(D)
    if abs(c * kmaxp * dt) > 1e6:
        dt = float(np.sign(dt) * 1e6 / (c * kmaxp))
        it["dt"] = dt
    st = zoo.build(ex, it)
    kf = G.kint_full(D, N)
    K = kf * (2 * np.pi / L)
    base_sig = ("stepper.Wave", D, N % 2, regime(np.array([c * kmaxp * dt])), "dt<0" if dt < 0 else "dt>0")
    for kind in ("nyqfree", "const", "band"):
        u = G.random_state(rng, kind, 2, D, N)
        uh = G.fftn(u, D)
        ref_h, om = linref.wave_propagate(uh, K, c, dt)
        ref = np.real(G.ifftn(ref_h, D))
        got = np.asarray(st(jnp.asarray(u)))
        bus.tap("__call__")
        zmax = float(np.max(np.abs(om * dt)))
        omax = float(np.max(om))
        # h and v have different physical units: scale each channel by what can flow into it
        S_h = np.max(np.abs(u[0])) + np.max(np.abs(u[1])) * (abs(dt) if omax == 0 else min(abs(dt), 1 / max(om[om > 0].min(), 1e-300)) if (om > 0).any() else abs(dt)) + 1e-300
        S_v = np.max(np.abs(u[1])) + np.max(np.abs(u[0])) * omax + 1e-300
        tol = 512 * EPS * (1 + zmax) * (1 + np.log2(N ** D)) * N ** (D / 2)
        err = max(float(np.max(np.abs(got[0] - ref[0])) / S_h), float(np.max(np.abs(got[1] - ref[1])) / S_v))
        bus.judge("wave_propagator", err, tol, base_sig + (kind,), sample=dict(intent=it, state=kind),
                  witness=dict(intent=it, state=kind, err=err), nontrivial=kind != "const")
        if kind == "const":
            # k = 0 drift: h += dt * v, v unchanged
            mh, mv = u[0].mean(), u[1].mean()
            e = max(abs(got[0].mean() - (mh + dt * mv)) / (abs(mh) + abs(dt * mv) + 1e-300), abs(got[1].mean() - mv) / (abs(mv) + 1e-300))
            bus.judge("wave_drift", float(e), 64 * EPS * (1 + np.log2(N ** D)), base_sig, witness=dict(intent=it))
    # reversal
    u = G.random_state(rng, "nyqfree", 2, D, N)
    back = zoo.build(ex, dict(it, dt=-dt))
    rt = np.asarray(back(st(jnp.asarray(u))))
    zmax = abs(c * kmaxp * dt)
    omax = c * kmaxp
    S_h = np.max(np.abs(u[0])) + np.max(np.abs(u[1])) * abs(dt)
    S_v = np.max(np.abs(u[1])) + np.max(np.abs(u[0])) * omax
    e = max(float(np.max(np.abs(rt[0] - u[0])) / S_h), float(np.max(np.abs(rt[1] - u[1])) / S_v))
    bus.judge("reversal", e, 1024 * EPS * (1 + zmax) * (1 + np.log2(N ** D)) * N ** (D / 2), base_sig + ("wave",), witness=dict(intent=it))
