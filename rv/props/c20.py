"""C20  Malformed states and unsupported configurations are rejected, not accepted.

Monitors:
  rejects_shape    every exported stepper class x D, RepeatedStepper and Poisson: wrong channel count, extra batch axis, missing spatial axis, N+-1, unequal
                   axis lengths, missing channel axis -> ValueError and nothing else (not a TypeError from deeper inside, not a result)
  accepts_valid    every correctly shaped state is accepted and returns the same shape
  ctor_restrictions  documented constructor restrictions -> ValueError (2D-only / 3D-only steppers and nonlinear terms, derivative-order parity, scale_list
                   length, linear-operator shape, ifft without num_points in 1D, channel mismatch in multi-channel convection, metric / IC option combinations)
"""
import numpy as np
from rv import env, zoo
from rv.refmodel import grid as G

PROP = "C20"
RULE = ("cases = every exported BaseStepper subclass (enumerated from the package exports at run time) x supported D x malformed-shape class, + RepeatedStepper, Poisson; documented "
        "constructor restrictions; distinct = (monitor, class, D, malformation | restriction); a class exported by the tree but unknown to the zoo makes the run inconclusive")
REQUIRED = {"rejects_shape": {"quick": 400, "thorough": 800}, "accepts_valid": {"quick": 60, "thorough": 120}, "ctor_restrictions": {"quick": 40, "thorough": 60}, "exports_covered": 1}
ASSUMPTIONS = ["ForcedStepper is not among the objects the property lists and is recorded as an observation only", "Poisson has no channel configuration: only spatial malformations are judged"]
TIMEOUT = {"quick": 2400, "thorough": 7200}


def cases(tier, seed):
    out = [dict(kind="exports", rs=[seed], cost=0.2)]
    for name, spec in zoo.SPECS.items():
        for D in spec["dims"]:
            for rep in range(1 if tier == "quick" else 2):
                out.append(dict(kind="shape", cls=name, D=D, rs=[seed, env.crc(name), D, rep], cost={1: 0.5, 2: 1, 3: 2}[D]))
    for D in (1, 2, 3):
        out.append(dict(kind="wrappers", D=D, rs=[seed, D, 5], cost=1))
    out.append(dict(kind="ctor", rs=[seed, 9], cost=2))
    return out


def malformed(C, D, N):
    """label -> shape"""
    out = {"wrong channel count (+1)": (C + 1,) + (N,) * D, "extra batch axis": (2, C) + (N,) * D, "N+1 points": (C,) + (N + 1,) * D, "N-1 points": (C,) + (N - 1,) * D,
           "missing channel axis": (N,) * D, "missing spatial axis": (C,) + (N,) * (D - 1), "extra spatial axis": (C,) + (N,) * (D + 1)}
    if C > 1:
        out["wrong channel count (-1)"] = (C - 1,) + (N,) * D
    if D > 1:
        out["unequal axis lengths"] = (C,) + (N,) * (D - 1) + (N + 1,)
        out["unequal axis lengths (first)"] = (C, N + 2) + (N,) * (D - 1)
    return out


def expect_value_error(bus, monitor, fn, sig, info):
    try:
        r = fn()
        bus.flag(monitor, f"accepted; returned shape {getattr(r, 'shape', None)}", sig, witness=dict(info, outcome="accepted", returned=list(getattr(r, "shape", []))))
    except ValueError:
        bus.ok(monitor, sig, sample=info)
    except Exception as e:  # noqa: BLE001
        bus.flag(monitor, f"raised {type(e).__name__} instead of ValueError: {str(e)[:100]}", sig, witness=dict(info, outcome=type(e).__name__))


def run_exports(case, bus, ex):
    names = zoo.exported(ex)
    missing = sorted(set(names) - set(zoo.SPECS))
    bus.judge("exports_covered", float(len(missing)), 0.5, ("exports",), sample=dict(exported=len(names), covered=len(set(names) & set(zoo.SPECS))),
              witness=dict(missing_generators_for=missing), msg=f"exported stepper classes without a generator: {missing}")


def run_shape(case, bus, ex):
    import jax.numpy as jnp
    rng = env.rng_for(*case["rs"])
    name, D = case["cls"], case["D"]
    N = {1: 8, 2: 6, 3: 5}[D] + int(rng.integers(0, 2))
    spec = zoo.SPECS[name]
    it = zoo.make_intent(rng, name, D, N, variant=int(rng.integers(0, spec["nvar"])), order=(None if spec["linear"] else int(rng.integers(0, 5))))
    st = zoo.build(ex, it)
    C = zoo.channels(it)
    info = dict(intent=it)
    u = jnp.asarray(G.random_state(rng, "white", C, D, N, amp=0.3))
    o = st(u)
    bus.judge("accepts_valid", 0.0 if o.shape == u.shape else 1.0, 0.5, (name, D), sample=dict(info, shape=list(u.shape)), witness=dict(info, out=list(o.shape)))
    for lab, shp in malformed(C, D, N).items():
        if 0 in shp or len(shp) == 0:
            continue
        expect_value_error(bus, "rejects_shape", lambda shp=shp: st(jnp.zeros(shp)), (name, D, lab), dict(info, malformation=lab, shape=list(shp)))


def run_wrappers(case, bus, ex):
    import jax.numpy as jnp
    rng = env.rng_for(*case["rs"])
    D = case["D"]
    N = {1: 8, 2: 6, 3: 5}[D]
    for name in ("stepper.Burgers", "stepper.Diffusion", "reaction.GrayScott"):
        it = zoo.make_intent(rng, name, D, N, order=(None if zoo.SPECS[name]["linear"] else 2))
        st = zoo.build(ex, it)
        C = zoo.channels(it)
        rs = ex.RepeatedStepper(st, 3)
        o = rs(jnp.zeros((C,) + (N,) * D))
        bus.judge("accepts_valid", 0.0 if o.shape == (C,) + (N,) * D else 1.0, 0.5, ("RepeatedStepper(" + name + ")", D), witness=dict(intent=it))
        for lab, shp in malformed(C, D, N).items():
            if 0 in shp or len(shp) == 0:
                continue
            expect_value_error(bus, "rejects_shape", lambda shp=shp: rs(jnp.zeros(shp)), ("RepeatedStepper(" + name + ")", D, lab), dict(wrapper="RepeatedStepper", intent=it, malformation=lab, shape=list(shp)))
        fs = ex.ForcedStepper(st)
        try:
            r = fs(jnp.zeros((C,) + (N + 1,) * D), jnp.zeros((C,) + (N + 1,) * D))
            bus.observe("O3 ForcedStepper accepts a malformed state", dict(inner=name, D=D, returned=list(r.shape)))
        except Exception as e:  # noqa: BLE001
            bus.observe("O3 ForcedStepper on a malformed state raised", type(e).__name__)
    for order in (2, 4):
        ps = ex.poisson.Poisson(D, 1.0, N, order=order)
        for C in (1, 3):
            o = ps(jnp.ones((C,) + (N,) * D))
            bus.judge("accepts_valid", 0.0 if o.shape == (C,) + (N,) * D else 1.0, 0.5, ("Poisson", D, C), witness=dict(D=D, N=N, C=C))
        for lab, shp in malformed(2, D, N).items():
            if "channel" in lab or "batch" in lab or 0 in shp:
                continue            # Poisson has no channel configuration
            expect_value_error(bus, "rejects_shape", lambda shp=shp: ps(jnp.zeros(shp)), ("Poisson", D, lab), dict(cls="Poisson", D=D, N=N, malformation=lab, shape=list(shp)))


def run_ctor(case, bus, ex):
    import jax.numpy as jnp
    S, Gn, nf, sp, M = ex.stepper, ex.stepper.generic, ex.nonlin_fun, ex.spectral, ex.metrics
    dop = {D: sp.build_derivative_operator(D, 1.0, 8) for D in (1, 2, 3)}
    T = []
    for D in (1, 3):
        T.append((f"NavierStokesVorticity in {D}D", lambda D=D: S.NavierStokesVorticity(D, 1.0, 8, 0.1)))
        T.append((f"KolmogorovFlowVorticity in {D}D", lambda D=D: S.KolmogorovFlowVorticity(D, 1.0, 8, 0.1)))
        T.append((f"GeneralVorticityConvectionStepper in {D}D", lambda D=D: Gn.GeneralVorticityConvectionStepper(D, 1.0, 8, 0.1)))
        T.append((f"VorticityConvection2d in {D}D", lambda D=D: nf.VorticityConvection2d(D, 8, derivative_operator=dop[D], dealiasing_fraction=2 / 3)))
        T.append((f"VorticityConvection2dKolmogorov in {D}D", lambda D=D: nf.VorticityConvection2dKolmogorov(D, 8, derivative_operator=dop[D], dealiasing_fraction=2 / 3)))
    for D in (1, 2):
        T.append((f"NavierStokesVelocity in {D}D", lambda D=D: S.NavierStokesVelocity(D, 1.0, 8, 0.1)))
        T.append((f"KolmogorovFlowVelocity in {D}D", lambda D=D: S.KolmogorovFlowVelocity(D, 1.0, 8, 0.1)))
        T.append((f"ProjectedConvection3d in {D}D", lambda D=D: nf.ProjectedConvection3d(D, 8, derivative_operator=dop[D])))
        T.append((f"ProjectedConvection3dKolmogorov in {D}D", lambda D=D: nf.ProjectedConvection3dKolmogorov(D, 8, derivative_operator=dop[D], dealiasing_fraction=2 / 3)))
    for o in (1, 3, 5):
        T.append((f"build_laplace_operator odd order {o}", lambda o=o: sp.build_laplace_operator(dop[2], order=o)))
    for o in (0, 2, 4):
        T.append((f"build_gradient_inner_product_operator even order {o}", lambda o=o: sp.build_gradient_inner_product_operator(dop[2], jnp.ones(2), order=o)))
    T.append(("gradient inner product wrong velocity shape", lambda: sp.build_gradient_inner_product_operator(dop[2], jnp.ones(3), order=1)))
    T.append(("GeneralNonlinearFun scale_list length 2", lambda: nf.GeneralNonlinearFun(1, 8, derivative_operator=dop[1], dealiasing_fraction=2 / 3, scale_list=(1.0, 2.0))))
    T.append(("GeneralNonlinearStepper 4 nonlinear coefficients", lambda: Gn.GeneralNonlinearStepper(1, 1.0, 8, 0.1, nonlinear_coefficients=(0.0, 1.0, 0.0, 0.0))))
    T.append(("build_scaling_array invalid mode", lambda: sp.build_scaling_array(1, 8, mode="nonsense")))
    T.append(("ifft 1D without num_points", lambda: ex.ifft(jnp.zeros((1, 5), dtype=complex))))
    T.append(("make_incompressible channel mismatch", lambda: sp.make_incompressible(jnp.zeros((3, 8, 8)))))
    T.append(("multi-channel convection (conservative) channel mismatch", lambda: nf.ConvectionNonlinearFun(2, 8, derivative_operator=dop[2], conservative=True)(jnp.zeros((3, 8, 5), dtype=complex))))
    T.append(("multi-channel convection (non-conservative) channel mismatch", lambda: nf.ConvectionNonlinearFun(2, 8, derivative_operator=dop[2])(jnp.zeros((1, 8, 5), dtype=complex))))
    T.append(("GrayScott nonlinearity with 3 channels", lambda: S.reaction.GrayScott(1, 1.0, 8, 0.1)._integrator._nonlinear_fun(jnp.zeros((3, 5), dtype=complex))))
    T.append(("dealias without a mask", lambda: nf.ZeroNonlinearFun(1, 8).dealias(jnp.zeros((1, 5), dtype=complex))))
    T.append(("spatial_norm normalized without ref", lambda: M.spatial_norm(jnp.ones((1, 8)), None, mode="normalized")))
    T.append(("spatial_norm symmetric without ref", lambda: M.spatial_norm(jnp.ones((1, 8)), None, mode="symmetric")))
    T.append(("fourier_norm normalized without ref", lambda: M.fourier_norm(jnp.ones((1, 8)), None, mode="normalized")))
    T.append(("stack_sub_trajectories window too long", lambda: ex.stack_sub_trajectories(jnp.zeros((3, 2)), 4)))
    T.append(("RandomSineWaves1d in 2D", lambda: ex.ic.RandomSineWaves1d(2)))
    T.append(("GaussianRandomField std_one + max_one", lambda: ex.ic.GaussianRandomField(1, std_one=True, max_one=True)))
    T.append(("DiffusedNoise zero_mean False + std_one", lambda: ex.ic.DiffusedNoise(1, zero_mean=False, std_one=True)))

    class BadStepper(ex.BaseStepper):
        def __init__(self):
            super().__init__(num_spatial_dims=1, domain_extent=1.0, num_points=8, dt=0.1, num_channels=1, order=0)

        def _build_linear_operator(self, d):
            return jnp.zeros((2, 3), dtype=complex)

        def _build_nonlinear_fun(self, d):
            return nf.ZeroNonlinearFun(1, 8)
    T.append(("BaseStepper linear operator of wrong shape", lambda: BadStepper()))
    from rv.props.c18 import invalid_trials
    for D in (1, 2, 3):            # every documented-invalid IC option combination, in every dimension
        for lab, fn in invalid_trials(ex, D):
            T.append((f"ic: {lab} (D={D})", fn))
    for lab, fn in T:
        expect_value_error(bus, "ctor_restrictions", fn, (lab,), dict(restriction=lab))
    # an unsupported ETDRK order is refused as well (NotImplementedError is the documented form)
    try:
        S.Burgers(1, 1.0, 8, 0.1, order=5)
        bus.flag("ctor_restrictions", "ETDRK order 5 accepted", ("order 5",), witness=dict(restriction="order 5"))
    except (NotImplementedError, ValueError):
        bus.ok("ctor_restrictions", ("order 5",))


def run_case(case, bus, ex):
    return {"exports": run_exports, "shape": run_shape, "wrappers": run_wrappers, "ctor": run_ctor}[case["kind"]](case, bus, ex)
