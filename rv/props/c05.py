"""C05  Spectral differential operators are exact on band-limited fields.

Oracle: random Nyquist-free trigonometric polynomials with closed-form partial derivatives (rv.refmodel.grid.TrigPoly).
Monitors: derivative (orders 1..6, all channel layouts), laplace_operator (orders 0,2,4,6), gradient_inner_product (1,3,5),
poisson (orders 2,4: zero mean and operator(u) = -(f - mean f), checked with the model's own full-FFT operator).
"""
import numpy as np
from rv import env
from rv.refmodel import grid as G

PROP = "C05"
RULE = ("cases = D x C in {1,2,3} x N odd/even x L in [1e-2,1e2]; each case draws trig polynomials and checks every operator/order; "
        "distinct = (monitor, D, C, N parity, order); non-trivial = polynomial has a non-constant term along the differentiated axis")
REQUIRED = {"derivative": {"quick": 150, "thorough": 800}, "laplace_operator": {"quick": 40, "thorough": 200},
            "gradient_inner_product": {"quick": 30, "thorough": 150}, "poisson": {"quick": 30, "thorough": 150}}
ASSUMPTIONS = ["inputs strictly below the Nyquist mode", "float64 session"]
EPS = np.finfo(float).eps


def cases(tier, seed):
    out = []
    Ns = {1: [4, 5, 9, 16], 2: [4, 7, 10], 3: [4, 5, 8]} if tier == "quick" else {1: list(range(4, 17)), 2: list(range(4, 15)), 3: list(range(4, 10))}
    for D in (1, 2, 3):
        for N in Ns[D]:
            for C in (1, 2, 3):
                for rep in range(1 if tier == "quick" else 2):
                    out.append(dict(kind="ops", D=D, N=N, C=C, rs=[seed, D, N, C, rep], cost=N ** D / 50 + 1))
    return out


def run_case(case, bus, ex):
    import jax.numpy as jnp
    rng = env.rng_for(*case["rs"])
    D, N, C = case["D"], case["N"], case["C"]
    L = float([1.0, 2 * np.pi, 10 ** rng.uniform(-2, 2), 10 ** rng.uniform(2, 5), 10 ** rng.uniform(-4, -2)][int(case["rs"][-1] + N + C) % 5])          # any L > 0: very large and very small boxes included
    tp = G.random_trigpoly(rng, D, L, N, C=C, nterms=4)
    u = tp.on_grid(N)
    kmaxp = 2 * np.pi * tp.kmax() / L
    S = tp.scale()
    logn = 1 + np.log2(N ** D)
    info = dict(D=D, N=N, C=C, L=L, poly=tp.describe())
    # ---- derivative, all orders and layouts
    for order in range(1, 7):
        got = np.asarray(ex.derivative(jnp.asarray(u), L, order=order))
        bus.tap("derivative")
        ref = np.stack([tp.derivative(a, order).on_grid(N) for a in range(D)], axis=1)   # (C, D, ...)
        if C == 1:
            ref = ref[0]
        if got.shape != ref.shape:
            bus.flag("derivative", f"shape {got.shape} != {ref.shape}", (D, C, N % 2, order), witness=info)
            continue
        err = float(np.max(np.abs(got - ref)))
        tol = 256 * EPS * logn * S * max(1.0, (2 * np.pi * ((N - 1) // 2) / L)) ** order
        nontriv = any(any(k) for ch in tp.terms for k, _, _ in ch)
        bus.judge("derivative", err, tol, (D, C, N % 2, order), sample=dict(info, order=order), witness=dict(info, order=order, err=err), nontrivial=nontriv)
    sp = ex.spectral
    dop = sp.build_derivative_operator(D, L, N)
    kr = G.kint_rfft(D, N).astype(float) * (2 * np.pi / L)
    nyq = G.nyquist_mask(G.kint_rfft(D, N), N)
    ik = 1j * kr
    if not np.allclose(np.asarray(dop), ik, rtol=8 * EPS, atol=0):
        bus.flag("laplace_operator", "derivative operator differs from i*2pi*k/L", (D, N % 2, "dop"), witness=info)
    uh = ex.fft(jnp.asarray(u))
    kcap = 2 * np.pi * ((N - 1) // 2) / L
    for order in (0, 2, 4, 6):
        op = np.asarray(sp.build_laplace_operator(dop, order=order))
        bus.tap("build_laplace_operator")
        ref_sym = np.ones(kr.shape[1:], complex)[None] if order == 0 else (ik ** order).sum(0)[None]
        e_sym = float(np.max(np.abs(op - ref_sym)[..., ~nyq])) / max(1.0, kcap) ** order if op.shape == ref_sym.shape else np.inf
        got = np.asarray(ex.ifft(jnp.asarray(op) * uh, num_spatial_dims=D, num_points=N))
        ref = u if order == 0 else sum(np.stack([tp.derivative(a, order).on_grid(N)[c] for c in range(C)]) for a in range(D))
        err = float(np.max(np.abs(got - ref)))
        tol = 256 * EPS * logn * S * max(1.0, kcap) ** order
        bus.judge("laplace_operator", max(err / tol, e_sym / (64 * EPS * D)), 1.0, (D, C, N % 2, order), sample=dict(info, order=order), witness=dict(info, order=order, err=err, e_sym=e_sym))
    for order in (1, 3, 5):
        v = rng.uniform(-2, 2, size=D)
        op = np.asarray(sp.build_gradient_inner_product_operator(dop, jnp.asarray(v), order=order))
        bus.tap("build_gradient_inner_product_operator")
        ref_sym = np.tensordot(v, ik ** order, axes=(0, 0))[None]
        e_sym = float(np.max(np.abs(op - ref_sym)[..., ~nyq])) / (np.sum(np.abs(v)) * max(1.0, kcap) ** order) if op.shape == ref_sym.shape else np.inf
        got = np.asarray(ex.ifft(jnp.asarray(op) * uh, num_spatial_dims=D, num_points=N))
        ref = sum(v[a] * tp.derivative(a, order).on_grid(N) for a in range(D))
        err = float(np.max(np.abs(got - ref)))
        tol = 256 * EPS * logn * S * np.sum(np.abs(v)) * max(1.0, kcap) ** order
        bus.judge("gradient_inner_product", max(err / tol, e_sym / (64 * EPS * D)), 1.0, (D, C, N % 2, order), sample=dict(info, order=order, v=v.tolist()), witness=dict(info, order=order, v=v.tolist(), err=err))
    # ---- Poisson
    kf = G.kint_full(D, N).astype(float) * (2 * np.pi / L)
    for order in (2, 4):
        ps = ex.poisson.Poisson(D, L, N, order=order)
        sol = np.asarray(ps(jnp.asarray(u)))
        bus.tap("Poisson.__call__")
        if sol.shape != u.shape:
            bus.flag("poisson", f"shape {sol.shape}", (D, C, N % 2, order), witness=info)
            continue
        f0 = u - u.mean(axis=G.axes(D), keepdims=True)
        sym = ((1j * kf) ** order).sum(0)
        back = np.real(G.ifftn(sym * G.fftn(sol, D), D))        # operator applied by the model
        kmin = 2 * np.pi / L
        Ssol = S / min(1.0, kmin) ** order
        e_mean = float(np.max(np.abs(sol.mean(axis=G.axes(D))))) / Ssol
        e_res = float(np.max(np.abs(back + f0))) / (S * max(1.0, (kcap / kmin)) ** order)
        # closed form as a second oracle
        refsol = tp.mapped(lambda kp: 0.0 if not np.any(kp) else -1.0 / complex(((1j * kp) ** order).sum())).on_grid(N)
        e_cf = float(np.max(np.abs(sol - refsol))) / Ssol
        tol = 512 * EPS * logn
        bus.judge("poisson", max(e_mean, e_res, e_cf), tol, (D, C, N % 2, order), sample=dict(info, order=order), witness=dict(info, order=order, e_mean=e_mean, e_res=e_res, e_closed_form=e_cf))
