"""C10  Incompressibility is enforced and preserved.

Monitors (divergence always evaluated by the model's own full-FFT i*k):
  leray            div Leray(u_hat) = 0, idempotent, identity on divergence-free fields (D = 2, 3; Nyquist-free fields)
  make_incompressible   div = 0, idempotent, identity on div-free fields, == ifft o Leray o fft
  rot3d_divfree    the 3D rotational convection term is divergence-free for EVERY input (white noise, Nyquist content)
  rollout_divfree  history checker: along rollout(NavierStokesVelocity | KolmogorovFlowVelocity, n) started divergence-free, the
                   divergence recorded by a tap inside the scan at every iteration stays at rounding level (orders 1-4)
"""
import numpy as np
from rv import env, zoo, taps
from rv.refmodel import grid as G, aliasfree as A

PROP = "C10"
RULE = ("cases = D in {2,3} x N odd/even x L x field class (white/band/div-free/compressible-gradient) for the projections; class x order 1-4 x viscosity/drag/forcing x "
        "rollout length for the histories; every scan iteration is one judged event (recorded from inside the compiled rollout); distinct = (monitor, D, N parity, "
        "field class | class, order, iteration bucket); non-trivial = input has non-zero divergence (projections) / state is non-zero (histories)")
REQUIRED = {"leray": {"quick": 60, "thorough": 300}, "make_incompressible": {"quick": 60, "thorough": 300}, "rot3d_divfree": {"quick": 10, "thorough": 36},
            "rollout_divfree": {"quick": 150, "thorough": 2000}}
REQUIRED_TAPS = {"ns3_step:traced": 150}
ASSUMPTIONS = ["Nyquist-free fields for the physical-space routines (the property's precondition)", "float64"]
TIMEOUT = {"quick": 2400, "thorough": 7200}
EPS = np.finfo(float).eps


def cases(tier, seed):
    out = []
    Ns = {2: [5, 6, 9, 12], 3: [5, 6, 8]} if tier == "quick" else {2: list(range(4, 17)), 3: list(range(4, 11))}
    for D in (2, 3):
        for N in Ns[D]:
            for rep in range(2 if tier == "quick" else 4):
                out.append(dict(kind="proj", D=D, N=N, rs=[seed, D, N, rep], cost=N ** D / 100 + 1))
    for N in Ns[3]:
        out.append(dict(kind="rot3d", N=N, rs=[seed, 3, N, 99], cost=N ** 3 / 100 + 1))
    for name in ("stepper.NavierStokesVelocity", "stepper.KolmogorovFlowVelocity"):
        for order in (1, 2, 3, 4):
            for N in ([6, 7] if tier == "quick" else [5, 6, 8, 9]):
                for v in range(2):
                    n = 12 if tier == "quick" else (200 if (N == 6 and v == 0) else 40)
                    out.append(dict(kind="history", cls=name, N=N, order=order, v=v, n=n, rs=[seed, env.crc(name), N, order, v], cost=N ** 3 * n / 2000 + 1))
    return out


def divergence_hat(v, D, N, L):
    kf = G.kint_full(D, N).astype(float) * (2 * np.pi / L)
    return (1j * kf * G.fftn(v, D)).sum(0)


def rel_div(v, D, N, L, ref=None):
    """max |div_hat| / (k_max * max|ref_hat|): dimensionless divergence, scaled by the INPUT field `ref` (never by the output,
    which may legitimately vanish, e.g. the projection of a pure gradient)."""
    vh = G.fftn(v if ref is None else ref, D)
    kmax = 2 * np.pi / L * (N // 2) * np.sqrt(D)
    return float(np.max(np.abs(divergence_hat(v, D, N, L)))) / (kmax * (float(np.max(np.abs(vh))) + 1e-300))


def fields(rng, D, N, L):
    w = G.random_state(rng, "nyqfree", D, D, N)
    yield "white", w
    yield "band", G.band_limit(G.random_state(rng, "white", D, D, N), D, max(1, (N - 1) // 3))
    yield "divfree", np.real(G.ifftn(A.leray_full(G.fftn(w, D), D, N, L), D))
    phi = G.remove_nyquist(G.random_state(rng, "white", 1, D, N), D)[0]
    kf = G.kint_full(D, N).astype(float) * (2 * np.pi / L)
    yield "gradient", np.real(G.ifftn(1j * kf * G.fftn(phi, D)[None], D))          # purely compressible
    yield "const", np.ones((D,) + (N,) * D) * rng.normal(size=(D,) + (1,) * D)


def run_proj(case, bus, ex):
    import jax.numpy as jnp
    rng = env.rng_for(*case["rs"])
    D, N = case["D"], case["N"]
    L = float([1.0, 2 * np.pi, 10 ** rng.uniform(-1, 1), 10 ** rng.uniform(3, 5), 10 ** rng.uniform(-4, -2)][(case["rs"][-1] + N) % 5])      # any box size: very large / very small included
    dop = ex.spectral.build_derivative_operator(D, L, N)
    ler = ex.nonlin_fun.Leray(D, N, derivative_operator=dop)
    tol = 256 * EPS * (1 + np.log2(N ** D))
    for label, v in fields(rng, D, N, L):
        sig = (D, N % 2, label)
        info = dict(D=D, N=N, L=L, field=label)
        S = float(np.max(np.abs(v))) + 1e-300
        vh = np.fft.rfftn(v, axes=G.axes(D))
        p = np.fft.irfftn(np.asarray(ler(jnp.asarray(vh))), s=(N,) * D, axes=G.axes(D))
        bus.tap("Leray.__call__")
        ref = np.real(G.ifftn(A.leray_full(G.fftn(v, D), D, N, L), D))        # model projector
        had_div = rel_div(v, D, N, L) > 1e-8
        pp = np.fft.irfftn(np.asarray(ler(jnp.asarray(np.fft.rfftn(p, axes=G.axes(D))))), s=(N,) * D, axes=G.axes(D))
        e = max(rel_div(p, D, N, L, ref=v), float(np.max(np.abs(pp - p))) / S, float(np.max(np.abs(p - ref))) / S)
        if label in ("divfree", "const"):
            e = max(e, float(np.max(np.abs(p - v))) / S)
        if label == "gradient":
            e = max(e, float(np.max(np.abs(p))) / S)          # a pure gradient is annihilated
        bus.judge("leray", e, tol, sig, sample=info, witness=dict(info, measure=e), nontrivial=had_div or label in ("divfree",))
        m = np.asarray(ex.spectral.make_incompressible(jnp.asarray(v)))
        bus.tap("make_incompressible")
        mm = np.asarray(ex.spectral.make_incompressible(jnp.asarray(m)))
        e = max(rel_div(m, D, N, L, ref=v), float(np.max(np.abs(mm - m))) / S, float(np.max(np.abs(m - p))) / S, float(np.max(np.abs(m - ref))) / S)
        if label in ("divfree", "const"):
            e = max(e, float(np.max(np.abs(m - v))) / S)
        bus.judge("make_incompressible", e, tol, sig, sample=info, witness=dict(info, measure=e), nontrivial=had_div or label in ("divfree",))
        # the documented indexing option: with "xy" the first two coordinates are swapped relative to the array axes (channel c <-> axis perm[c])
        mxy = np.asarray(ex.spectral.make_incompressible(jnp.asarray(v), indexing="xy"))
        perm = [1, 0] + list(range(2, D))
        kfull = G.kint_full(D, N).astype(float)
        divxy = sum(1j * kfull[perm[c_]] * G.fftn(mxy, D)[c_] for c_ in range(D))
        vp = v[perm]                                    # component along array axis a is channel perm[a]: the same field in the ij convention (array layout unchanged)
        refxy = np.real(G.ifftn(A.leray_full(G.fftn(vp, D), D, N, L), D))[perm]
        exy = max(float(np.max(np.abs(divxy))) / (float(np.max(np.abs(G.fftn(v, D)))) * (N / 2) * np.sqrt(D) + 1e-300), float(np.max(np.abs(mxy - refxy))) / S)
        bus.judge("make_incompressible", exy, tol, sig + ("xy",), witness=dict(info, indexing="xy", measure=exy), nontrivial=had_div)


def run_rot3d(case, bus, ex):
    import jax.numpy as jnp
    rng = env.rng_for(*case["rs"])
    N = case["N"]
    for frac in (2 / 3, 1 / 2):
        L = float(rng.choice([1.0, 2 * np.pi, 3.0]))
        dop = ex.spectral.build_derivative_operator(3, L, N)
        fun = ex.nonlin_fun.ProjectedConvection3d(3, N, derivative_operator=dop, dealiasing_fraction=frac)
        for kind in ("white", "checker", "band"):
            u = G.random_state(rng, kind, 3, 3, N)
            r = np.asarray(fun(jnp.asarray(np.fft.rfftn(u, axes=(1, 2, 3)))))
            kr = G.kint_rfft(3, N).astype(float) * (2 * np.pi / L)
            div = (1j * kr * r).sum(0)
            S = float(np.max(np.abs(np.fft.rfftn(u, axes=(1, 2, 3))))) ** 2 / N ** 3 * (2 * np.pi / L * (N // 2)) ** 2 + 1e-300
            bus.judge("rot3d_divfree", float(np.max(np.abs(div))) / S, 256 * EPS * np.log2(N ** 3), (N % 2, kind, round(frac, 2)),
                      sample=dict(N=N, L=L, state=kind, frac=frac), witness=dict(N=N, L=L, state=kind, frac=frac, div=float(np.max(np.abs(div)))), nontrivial=float(np.max(np.abs(r))) > 0)


def run_history(case, bus, ex):
    import jax, jax.numpy as jnp
    rng = env.rng_for(*case["rs"])
    name, N, order, n = case["cls"], case["N"], case["order"], case["n"]
    it = zoo.make_intent(rng, name, 3, N, variant=case["v"], order=order, dt=float(10 ** rng.uniform(-2.5, -1.2)))
    st = zoo.build(ex, it)
    L = it["L"]
    u0 = G.band_limit(G.random_state(rng, "white", 3, 3, N, amp=0.5), 3, max(1, (N - 1) // 3))
    u0 = np.real(G.ifftn(A.leray_full(G.fftn(u0, 3), 3, N, L), 3))
    tap = taps.CallTap(st, "ns3_step", bus)
    trj = np.asarray(jax.jit(ex.rollout(tap, n))(jnp.asarray(u0)))
    log = tap.flush()
    info = dict(intent=it, n=n)
    if len(log) != n:
        bus.flag("rollout_divfree", f"tap saw {len(log)} executions, expected {n}", (name, order), witness=info)
        return
    tol = 512 * EPS * np.log2(N ** 3)
    for i, rec in enumerate(log):
        o = rec["outputs"][0]
        if not np.all(np.isfinite(o)):
            bus.skip("rollout_divfree", "non-finite state")
            break
        bucket = "1" if i == 0 else ("2-10" if i < 10 else ("11-50" if i < 50 else "51+"))
        d = rel_div(o, 3, N, L, ref=u0)
        bus.judge("rollout_divfree", d, tol * (1 + 0.05 * i), (name, order, N % 2, bucket), traced=True,
                  sample=dict(info, iteration=i) if i in (0, n - 1) else None, witness=dict(info, iteration=i, rel_div=d))
        if i == n - 1 and not np.array_equal(o, trj[-1]):
            bus.flag("rollout_divfree", "tap output differs from the returned trajectory", (name, order), witness=info)


def run_case(case, bus, ex):
    return {"proj": run_proj, "rot3d": run_rot3d, "history": run_history}[case["kind"]](case, bus, ex)
