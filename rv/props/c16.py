"""C16  Error metrics are consistent quadratures of the documented norms.

Oracles: direct Riemann sums and full-FFT Parseval sums (rv.refmodel.metrics_ref).  Monitors:
  reference_value (every function in exponax.metrics vs the model), parseval (spatial == Fourier for the p=2 family), scaling_L,
  resolution_invariance (band-limited pairs at another N), additivity (channels; complete partition into bands low=high=k), axioms
  (identity, positivity, symmetry of s*, homogeneity / scale-freeness), h1_decomposition (plain + metric of the spectral gradient;
  odd N or Nyquist-free pairs), correlation, mean_metric, value_errors.
"""
import numpy as np
from rv import env
from rv.refmodel import grid as G, metrics_ref as MR

PROP = "C16"
RULE = ("cases = D x N odd/even x C x L; per case white-noise and trigonometric-polynomial pairs of O(1) amplitude; every public metric function is one event per monitor it takes "
        "part in; distinct = (monitor, function, D, N parity, C, state class); non-trivial = the two states differ; events in which a non-negligible coefficient falls below the "
        "documented absolute 1e-5 floor are classified outside")
REQUIRED = {"reference_value": {"quick": 400, "thorough": 2500}, "parseval": {"quick": 60, "thorough": 400}, "scaling_L": {"quick": 150, "thorough": 900},
            "resolution_invariance": {"quick": 100, "thorough": 600}, "additivity": {"quick": 100, "thorough": 600}, "axioms": {"quick": 300, "thorough": 2000},
            "h1_decomposition": {"quick": 60, "thorough": 300}, "correlation": {"quick": 40, "thorough": 250}, "mean_metric": {"quick": 15, "thorough": 80}, "value_errors": {"quick": 20, "thorough": 60}}
ASSUMPTIONS = ["O(1) amplitudes so that the absolute 1e-5 coefficient floor of the Fourier variants is inactive (events where it is active are classified outside)",
               "H1 decomposition judged on odd N or Nyquist-free pairs", "float64"]
TIMEOUT = {"quick": 2400, "thorough": 7200}
EPS = np.finfo(float).eps
TOL = 2e-12

SPATIAL = {"MAE": (1, 1, "absolute"), "nMAE": (1, 1, "normalized"), "sMAE": (1, 1, "symmetric"), "MSE": (2, 1, "absolute"), "nMSE": (2, 1, "normalized"), "sMSE": (2, 1, "symmetric"),
           "RMSE": (2, 0.5, "absolute"), "nRMSE": (2, 0.5, "normalized"), "sRMSE": (2, 0.5, "symmetric")}
FOURIER = {"fourier_MAE": (1, 1, "absolute"), "fourier_nMAE": (1, 1, "normalized"), "fourier_MSE": (2, 1, "absolute"), "fourier_nMSE": (2, 1, "normalized"),
           "fourier_RMSE": (2, 0.5, "absolute"), "fourier_nRMSE": (2, 0.5, "normalized")}
H1 = {"H1_MAE": "fourier_MAE", "H1_nMAE": "fourier_nMAE", "H1_MSE": "fourier_MSE", "H1_nMSE": "fourier_nMSE", "H1_RMSE": "fourier_RMSE", "H1_nRMSE": "fourier_nRMSE"}


def cases(tier, seed):
    out = []
    Ns = {1: [9, 12, 16], 2: [6, 7], 3: [5, 6]} if tier == "quick" else {1: [5, 8, 9, 12, 16, 21, 32], 2: [5, 6, 7, 8, 12], 3: [4, 5, 6, 7]}
    for D in (1, 2, 3):
        for N in Ns[D]:
            for C in ((1, 2) if tier == "quick" else (1, 2, 3)):
                for rep in range(1 if tier == "quick" else 2):
                    out.append(dict(kind="metrics", D=D, N=N, C=C, rs=[seed, D, N, C, rep], cost=N ** D / 30 + 1))
    return out


def rel(a, b):
    return abs(a - b) / (abs(b) + 1e-300)


def run_case(case, bus, ex):
    import jax.numpy as jnp
    rng = env.rng_for(*case["rs"])
    D, N, C = case["D"], case["N"], case["C"]
    M = ex.metrics
    L = float(rng.choice([1.0, 2 * np.pi, 10 ** rng.uniform(-1, 1)]))
    info0 = dict(D=D, N=N, C=C, L=L)
    tpu, tpv = G.random_trigpoly(rng, D, L, N, C=C, nterms=4, kmax=max(1, (N - 1) // 3)), G.random_trigpoly(rng, D, L, N, C=C, nterms=4, kmax=max(1, (N - 1) // 3))
    pairs = {"white": (G.random_state(rng, "white", C, D, N), G.random_state(rng, "white", C, D, N)),
             "poly": (tpu.on_grid(N), tpv.on_grid(N)),
             "nyqfree": (G.random_state(rng, "nyqfree", C, D, N), G.random_state(rng, "nyqfree", C, D, N))}
    J = lambda x: jnp.asarray(x)
    for kind, (u, v) in pairs.items():
        sigb = (D, N % 2, C, kind)
        info = dict(info0, state=kind)
        # ---------------- reference values, spatial
        for name, (p, q, mode) in SPATIAL.items():
            got = float(getattr(M, name)(J(u), J(v), domain_extent=L))
            ref = MR.spatial(u, v, L, p, q, mode)
            bus.tap(name)
            bus.judge("reference_value", rel(got, ref), TOL, (name,) + sigb, sample=dict(info, function=name, value=got), witness=dict(info, function=name, got=got, ref=ref))
            if mode == "absolute":
                got1 = float(getattr(M, name)(J(u), domain_extent=L))
                bus.judge("reference_value", rel(got1, MR.spatial(u, None, L, p, q)), TOL, (name + "(no ref)",) + sigb, witness=dict(info, function=name, noref=True))
        # ---------------- reference values, Fourier (+ band limits, + derivative orders)
        for name, (p, q, mode) in FOURIER.items():
            for opts in (dict(), dict(low=1, high=max(1, N // 4)), dict(low=0, high=1), dict(deriv=1), dict(deriv=2, low=1, high=N // 2)):
                if opts.get("deriv") and (N % 2 == 0 and kind == "white"):
                    continue       # derivative of Nyquist content: the rfft and full-FFT conventions legitimately differ
                kw = {k: val for k, val in opts.items() if k != "deriv"}
                if "deriv" in opts:
                    kw["derivative_order"] = opts["deriv"]
                got = float(getattr(M, name)(J(u), J(v), domain_extent=L, **kw))
                ref, loss = MR.fourier(u, v, L, p, q, mode, **opts)
                bus.tap(name)
                if loss > 1e-13:
                    bus.outside("reference_value", "coefficients inside the documented 1e-5 floor")
                    continue
                if not np.isfinite(ref) or ref == 0 and mode == "normalized":
                    bus.outside("reference_value", "empty band in the normalisation")
                    continue
                bus.judge("reference_value", rel(got, ref) if ref != 0 else abs(got), TOL * (10 if opts else 1), (name, tuple(sorted(opts))) + sigb,
                          sample=dict(info, function=name, options=opts, value=got), witness=dict(info, function=name, options=opts, got=got, ref=ref))
        # ---------------- general norms with non-standard exponents (inner p, outer q; default q = 1/p)
        for pq in ((3.0, None), (1.5, 2.0), (4.0, 0.25)):
            p_, q_ = pq
            qq = (1 / p_) if q_ is None else q_
            for mode in ("absolute", "normalized", "symmetric"):
                got = float(M.spatial_norm(J(u), J(v), mode=mode, domain_extent=L, inner_exponent=p_, outer_exponent=q_))
                bus.judge("reference_value", rel(got, MR.spatial(u, v, L, p_, qq, mode)), TOL, ("spatial_norm", p_, q_, mode) + sigb, witness=dict(info, function="spatial_norm", p=p_, q=q_, mode=mode))
            for mode in ("absolute", "normalized"):
                got = float(M.fourier_norm(J(u), J(v), mode=mode, domain_extent=L, inner_exponent=p_, outer_exponent=q_))
                ref, loss = MR.fourier(u, v, L, p_, qq, mode)
                if loss > 1e-13:
                    bus.outside("reference_value", "floor active")
                    continue
                bus.judge("reference_value", rel(got, ref), TOL, ("fourier_norm", p_, q_, mode) + sigb, witness=dict(info, function="fourier_norm", p=p_, q=q_, mode=mode))
        # ---------------- Parseval: spatial == Fourier for the p = 2 family (documented)
        for sname, fname in (("MSE", "fourier_MSE"), ("RMSE", "fourier_RMSE"), ("nMSE", "fourier_nMSE"), ("nRMSE", "fourier_nRMSE")):
            a, b = float(getattr(M, sname)(J(u), J(v), domain_extent=L)), float(getattr(M, fname)(J(u), J(v), domain_extent=L))
            _, loss = MR.fourier(u, v, L, 2, 1)
            if loss > 1e-13:
                bus.outside("parseval", "floor active")
                continue
            bus.judge("parseval", rel(b, a), TOL, (sname,) + sigb, sample=dict(info, pair=[sname, fname], values=[a, b]), witness=dict(info, pair=[sname, fname], values=[a, b]))
        # ---------------- L^D scaling (absolute variants), L-independence (normalized / symmetric)
        s = float(rng.uniform(0.3, 4.0))
        for name, (p, q, mode) in {**SPATIAL, **FOURIER}.items():
            a, b = float(getattr(M, name)(J(u), J(v), domain_extent=L)), float(getattr(M, name)(J(u), J(v), domain_extent=s * L))
            expect = a * (s ** (D * q) if mode == "absolute" else 1.0)
            bus.judge("scaling_L", rel(b, expect), TOL, (name,) + sigb, sample=dict(info, function=name, s=s), witness=dict(info, function=name, s=s, at_L=a, at_sL=b, expected=expect))
        # ---------------- additivity over channels
        if C > 1:
            for name in list(SPATIAL) + list(FOURIER):
                whole = float(getattr(M, name)(J(u), J(v), domain_extent=L))
                parts = sum(float(getattr(M, name)(J(u[c:c + 1]), J(v[c:c + 1]), domain_extent=L)) for c in range(C))
                bus.judge("additivity", rel(whole, parts), TOL, (name, "channels") + sigb, witness=dict(info, function=name, whole=whole, parts=parts))
        # ---------------- additivity over a complete partition into bands low = high = k (outer exponent 1)
        for name in ("fourier_MSE", "fourier_MAE"):
            whole = float(getattr(M, name)(J(u), J(v), domain_extent=L))
            parts = sum(float(getattr(M, name)(J(u), J(v), domain_extent=L, low=k, high=k)) for k in range(0, N // 2 + 1))
            bus.judge("additivity", rel(parts, whole), TOL * 5, (name, "bands") + sigb, sample=dict(info, function=name, bands=N // 2 + 1), witness=dict(info, function=name, whole=whole, parts=parts))
        # ---------------- axioms
        al = float(rng.uniform(0.2, 5.0) * rng.choice([-1, 1]))
        for name, (p, q, mode) in {**SPATIAL, **FOURIER}.items():
            f = getattr(M, name)
            z = float(f(J(u), J(u), domain_extent=L))
            val = float(f(J(u), J(v), domain_extent=L))
            sc = float(f(J(al * u), J(al * v), domain_extent=L))
            expect = val * (abs(al) ** (p * q) if mode == "absolute" else 1.0)
            bad = 0.0
            bad = max(bad, abs(z) / (abs(val) + 1e-300) / 1e3)          # identity -> 0
            bad = max(bad, 0.0 if val > 0 else 1.0)                      # positivity for distinct states
            bad = max(bad, rel(sc, expect))                              # homogeneity / scale-freeness
            if mode == "symmetric" or mode == "absolute":
                bad = max(bad, rel(float(f(J(v), J(u), domain_extent=L)), val))     # symmetry (s*; absolute variants are symmetric too)
            bus.judge("axioms", bad, TOL * 2, (name,) + sigb, sample=dict(info, function=name, alpha=al), witness=dict(info, function=name, alpha=al, zero=z, value=val, scaled=sc, expected_scaled=expect))
        # ---------------- H1 = plain + metric of the spectral gradient (pre: odd N or Nyquist-free)
        if N % 2 == 1 or kind in ("poly", "nyqfree"):
            kf = G.kint_full(D, N).astype(float) * (2 * np.pi / L)
            grad = lambda w: np.stack([np.real(G.ifftn(1j * kf[d] * G.fftn(w, D), D)) for d in range(D)])      # (D, C, ...)
            gu, gv = grad(u), grad(v)
            for hname, fname in H1.items():
                p, q, mode = FOURIER[fname]
                got = float(getattr(M, hname)(J(u), J(v), domain_extent=L))
                plain, l1 = MR.fourier(u, v, L, p, q, mode)
                if p == 2:      # gradient part through the independent spatial quadrature of the model gradient
                    gpart = 0.0
                    for c in range(C):
                        num = sum(MR.spatial_agg(gu[d][c] - gv[d][c], L, 2, q) for d in range(D))
                        if mode == "normalized":
                            num = num / sum(MR.spatial_agg(gv[d][c], L, 2, q) for d in range(D))
                        gpart += num
                else:
                    gpart, l2 = MR.fourier(u, v, L, p, q, mode, deriv=1)
                    l1 = max(l1, l2)
                if l1 > 1e-13:
                    bus.outside("h1_decomposition", "floor active")
                    continue
                bus.judge("h1_decomposition", rel(got, plain + gpart), TOL * 10, (hname,) + sigb, sample=dict(info, function=hname, plain=plain, gradient_part=gpart), witness=dict(info, function=hname, got=got, plain=plain, gradient_part=gpart))
            # the same with band limits: both parts are restricted to the documented band [low, high]
            for (lo, hi) in ((1, max(1, N // 4)), (0, max(1, N // 3)), (None, max(1, N // 4)), (2, None)):
                opts = {k: val for k, val in (("low", lo), ("high", hi)) if val is not None}
                for hname, fname in H1.items():
                    p, q, mode = FOURIER[fname]
                    plain, l1 = MR.fourier(u, v, L, p, q, mode, **opts)
                    gpart, l2 = MR.fourier(u, v, L, p, q, mode, deriv=1, **opts)
                    if max(l1, l2) > 1e-13 or not np.isfinite(plain + gpart):
                        bus.outside("h1_decomposition", "floor active / empty band")
                        continue
                    got = float(getattr(M, hname)(J(u), J(v), domain_extent=L, **opts))
                    bus.judge("h1_decomposition", rel(got, plain + gpart), TOL * 10, (hname, "band", lo, hi) + sigb, witness=dict(info, function=hname, band=[lo, hi], got=got, plain=plain, gradient_part=gpart))
        else:
            bus.outside("h1_decomposition", "even N with Nyquist content")
        # ---------------- correlation
        cval = float(M.correlation(J(u), J(v)))
        bad = abs(cval - MR.correlation(u, v))          # a correlation is O(1)-bounded: absolute accuracy is what rounding allows (near-orthogonal pairs have no relative accuracy)
        bad = max(bad, 0.0 if -1 - 1e-12 <= cval <= 1 + 1e-12 else 1.0)
        bad = max(bad, abs(float(M.correlation(J(u), J(abs(al) * u))) - 1.0), abs(float(M.correlation(J(u), J(-abs(al) * u))) + 1.0))
        bus.judge("correlation", bad, 2e-11, sigb, sample=dict(info, value=cval), witness=dict(info, value=cval, ref=MR.correlation(u, v)))
    # ---------------- resolution invariance of band-limited pairs
    N2 = N + int(rng.choice([1, 2, 3, N]))
    u1, v1, u2, v2 = tpu.on_grid(N), tpv.on_grid(N), tpu.on_grid(N2), tpv.on_grid(N2)
    for name, (p, q, mode) in {**SPATIAL, **FOURIER}.items():
        if p != 2 and (name in SPATIAL or mode == "absolute"):
            continue        # the Riemann sum of |d| is not exact, and fourier_MAE is documented as NOT consistent with a functional norm
                            # (it carries (L/N)^D sum|c_k|): only the L2 family and the scale-free p=1 Fourier ratio are resolution independent
        a, b = float(getattr(M, name)(J(u1), J(v1), domain_extent=L)), float(getattr(M, name)(J(u2), J(v2), domain_extent=L))
        bus.judge("resolution_invariance", rel(b, a), TOL * 10, (name, D, N % 2, N2 % 2, C), sample=dict(info0, function=name, N2=N2), witness=dict(info0, function=name, N2=N2, at_N=a, at_N2=b))
    # ---------------- mean_metric == mean of the loop
    B = 4
    U, V = np.stack([G.random_state(rng, "white", C, D, N) for _ in range(B)]), np.stack([G.random_state(rng, "white", C, D, N) for _ in range(B)])
    for name in ("nRMSE", "fourier_MSE", "MAE"):
        got = float(M.mean_metric(getattr(M, name), J(U), J(V), domain_extent=L))
        ref = float(np.mean([float(getattr(M, name)(J(U[i]), J(V[i]), domain_extent=L)) for i in range(B)]))
        bus.judge("mean_metric", rel(got, ref), TOL, (name, D, C), witness=dict(info0, function=name, got=got, ref=ref))
    # ---------------- documented ValueErrors
    u = J(pairs["white"][0])
    for label, fn in (("spatial normalized without ref", lambda: M.spatial_norm(u, None, mode="normalized")), ("spatial symmetric without ref", lambda: M.spatial_norm(u, None, mode="symmetric")),
                      ("fourier normalized without ref", lambda: M.fourier_norm(u, None, mode="normalized"))):
        try:
            fn()
            bus.flag("value_errors", f"{label}: accepted", (label,), witness=dict(info0, what=label))
        except ValueError:
            bus.ok("value_errors", (label, D))
        except Exception as e:  # noqa: BLE001
            bus.flag("value_errors", f"{label}: raised {type(e).__name__}", (label,), witness=dict(info0, what=label))
