"""C03  Nonlinear terms equal the alias-free projection of the documented operator.

Monitor `alias_free`: for any call N(u_hat) of a built-in nonlinear function, the returned coefficients on the retained band
equal those of the continuous operator applied to the band-truncated state computed on a 4x finer grid (no aliasing), and
`outside_band`: they vanish outside the band.  `band_cutoff`: the stored mask equals the documented cut-off computed in exact
rational arithmetic.
"""
import numpy as np
from rv import env
from rv.refmodel import grid as G, aliasfree as A

PROP = "C03"
RULE = ("cases = nonlinear-function class/form x D x every N of a contiguous range (all residues mod 12) x fraction x scale x L; states "
        "are white noise with full Nyquist content; an event is one call compared on the whole band; distinct = (class/form, D, N mod 12, "
        "fraction); non-trivial = retained band contains at least one non-constant mode and the reference is non-zero")
REQUIRED = {"alias_free": {"quick": 200, "thorough": 1500}, "outside_band": {"quick": 200, "thorough": 1500}, "band_cutoff": {"quick": 100, "thorough": 500}}
ASSUMPTIONS = ["quadratic terms judged with fraction 2/3 and 1/2, cubic terms with 1/2 only (as the property states)", "float64 session"]
AMBIENT = True            # thorough tier: the repository's own test-suite runs under the alias-free monitor (rv/ambient.py)
REQUIRED_AMBIENT = {'ambient_alias_free': 100}
TIMEOUT = {"quick": 2400, "thorough": 7200}
EPS = np.finfo(float).eps

FORMS = {  # name -> (dims, channels(D), degree-compatible fractions)
    "conv_mc_nc": ((1, 2, 3), lambda D: D, ("2/3", "1/2")),
    "conv_mc_c": ((1, 2, 3), lambda D: D, ("2/3", "1/2")),
    "conv_sc_c": ((1, 2, 3), lambda D: 1, ("2/3", "1/2")),
    "conv_sc_nc": ((1, 2, 3), lambda D: 1, ("2/3", "1/2")),
    "gradnorm": ((1, 2, 3), lambda D: 1, ("2/3", "1/2")),
    "gradnorm_nofix": ((1, 2, 3), lambda D: 1, ("2/3",)),
    "poly2": ((1, 2, 3), lambda D: 1, ("2/3", "1/2")),
    "poly3": ((1, 2, 3), lambda D: 1, ("1/2",)),
    "general": ((1, 2, 3), lambda D: 1, ("2/3", "1/2")),
    "vort2d": ((2,), lambda D: 1, ("2/3", "1/2")),
    "rot3d": ((3,), lambda D: 3, ("2/3", "1/2")),
    "cahn_hilliard": ((1, 2, 3), lambda D: 1, ("1/2",)),
    "gray_scott": ((1, 2, 3), lambda D: 2, ("1/2",)),
    "fisher_stepper": ((1, 2), lambda D: 1, ("2/3",)),
    "allen_cahn_stepper": ((1, 2), lambda D: 1, ("1/2",)),
    "swift_stepper": ((1, 2), lambda D: 1, ("1/2",)),
}


def cases(tier, seed):
    out = []
    if tier == "quick":
        Ns = {1: list(range(6, 18)) + [24, 31, 49, 98], 2: [6, 7, 8, 9, 12, 13], 3: [6, 7, 9]}          # 49, 98: sizes where N * (1 / N) != 1 in double precision (finding F13)
    else:
        Ns = {1: list(range(4, 41)) + [49, 98, 103, 187], 2: list(range(4, 25)), 3: list(range(4, 18))}
    for form, (dims, ch, fracs) in FORMS.items():
        for D in dims:
            for N in Ns[D]:
                for fr in fracs:
                    if tier == "quick" and fr == "1/2" and form in ("conv_mc_nc", "conv_sc_nc", "gradnorm", "general", "poly2") and N % 3:
                        continue
                    out.append(dict(kind="nl", form=form, D=D, N=N, frac=fr, rs=[seed, env.crc(form), D, N, env.crc(fr)], cost=(4 * N) ** D / 1e3 + 1))
    # the stored band of every grid size of a range (construction only, cheap): size-specific slips (finding F13: N = 49, 103, 187) cannot hide between sampled sizes
    top1, top2 = (330, 40) if tier == "quick" else (1100, 72)
    for lo in range(3, top1, 64):
        out.append(dict(kind="masksweep", D=1, lo=lo, hi=min(top1, lo + 64), rs=[seed, 9, 1, lo], cost=3))
    for lo in range(3, top2, 12):
        out.append(dict(kind="masksweep", D=2, lo=lo, hi=min(top2, lo + 12), rs=[seed, 9, 2, lo], cost=3))
    return out


def run_masksweep(case, bus, ex):
    from fractions import Fraction
    D = case["D"]
    nf = ex.nonlin_fun
    kinds = [("conv", lambda N, dop, fr: nf.ConvectionNonlinearFun(D, N, derivative_operator=dop, dealiasing_fraction=fr, scale=1.0, single_channel=False, conservative=False)),
             ("gradnorm", lambda N, dop, fr: nf.GradientNormNonlinearFun(D, N, derivative_operator=dop, dealiasing_fraction=fr, scale=1.0, zero_mode_fix=True)),
             ("poly", lambda N, dop, fr: nf.PolynomialNonlinearFun(D, N, dealiasing_fraction=fr, coefficients=(0.0, 0.0, 1.0)))]
    for N in range(case["lo"], case["hi"]):
        dop = ex.spectral.build_derivative_operator(D, 1.0, N)
        kr = G.kint_rfft(D, N)
        name, mk = kinds[N % 3]
        for fs in ("2/3", "1/2", "1"):
            fun = mk(N, dop, float(Fraction(fs)))
            bus.tap("nonlinear_fun.__init__")
            K = A.documented_cutoff(N, Fraction(fs))
            want = np.all(np.abs(kr) <= K, axis=0) if K >= 0 else np.zeros(kr.shape[1:], bool)
            got = np.asarray(fun.dealiasing_mask)[0]
            bad = int(np.sum(got != want)) if got.shape == want.shape else -1
            bus.judge("band_cutoff", float(abs(bad)), 0.5, ("sweep", name, D, fs, N % 6, N // 64), witness=dict(form=name, D=D, N=N, frac=fs, K_documented=K, mismatching_modes=bad, note="construction-only sweep over all N"),
                      nontrivial=K >= 1)


def build(ex, form, D, N, L, frac, rng):
    """Returns (callable on rfft spectra, opname, params, project)."""
    import jax.numpy as jnp
    nf = ex.nonlin_fun
    dop = ex.spectral.build_derivative_operator(D, L, N)
    b = float(rng.uniform(0.3, 2.0) * rng.choice([-1, 1]))
    if form.startswith("conv_"):
        sc, cons = "sc" in form, form.endswith("_c")
        return (nf.ConvectionNonlinearFun(D, N, derivative_operator=dop, dealiasing_fraction=frac, scale=b, single_channel=sc, conservative=cons),
                form, dict(scale=b), False)
    if form in ("gradnorm", "gradnorm_nofix"):
        fix = form == "gradnorm"
        return (nf.GradientNormNonlinearFun(D, N, derivative_operator=dop, dealiasing_fraction=frac, scale=b, zero_mode_fix=fix), "gradnorm", dict(scale=b, zero_mode_fix=fix), False)
    if form == "poly2":
        co = [float(x) for x in rng.uniform(-1, 1, size=3)]
        return nf.PolynomialNonlinearFun(D, N, dealiasing_fraction=frac, coefficients=tuple(co)), "poly", dict(coefficients=co), False
    if form == "poly3":
        co = [float(x) for x in rng.uniform(-1, 1, size=4)]
        return nf.PolynomialNonlinearFun(D, N, dealiasing_fraction=frac, coefficients=tuple(co)), "poly", dict(coefficients=co), False
    if form == "general":
        sl = [float(x) for x in rng.uniform(-1.5, 1.5, size=3)]
        # documented usage switches terms off with exact Python zeros (default (0, -1, 0); KS in combustion form (0, 0, -1)): every on/off pattern is reached by N
        pat = [(1, 1, 1), (0, 1, 0), (0, 0, 1), (1, 0, 1), (1, 1, 0), (0, 1, 1), (1, 0, 0)][N % 7]
        sl = [x if on else (0 if (N + i) % 2 else 0.0) for i, (x, on) in enumerate(zip(sl, pat))]
        return nf.GeneralNonlinearFun(D, N, derivative_operator=dop, dealiasing_fraction=frac, scale_list=tuple(sl)), "general", dict(scale_list=sl), False
    if form == "vort2d":
        return nf.VorticityConvection2d(D, N, convection_scale=b, derivative_operator=dop, dealiasing_fraction=frac), "vort2d", dict(scale=b), False
    if form == "rot3d":
        return nf.ProjectedConvection3d(D, N, derivative_operator=dop, dealiasing_fraction=frac), "rot3d", dict(), True
    if form == "cahn_hilliard":
        nu, c3 = float(rng.uniform(0.005, 0.05)), float(rng.uniform(0.5, 1.5))
        st = ex.stepper.reaction.CahnHilliard(D, L, N, 0.01, diffusivity=nu, third_order_coefficient=c3, dealiasing_fraction=frac)
        return st._integrator._nonlinear_fun, "cahn_hilliard", dict(scale=nu * c3), False
    if form == "gray_scott":
        f, k = float(rng.uniform(0.02, 0.06)), float(rng.uniform(0.05, 0.065))
        st = ex.stepper.reaction.GrayScott(D, L, N, 0.01, feed_rate=f, kill_rate=k, dealiasing_fraction=frac)
        return st._integrator._nonlinear_fun, "gray_scott", dict(feed_rate=f, kill_rate=k), False
    if form == "fisher_stepper":
        r = float(rng.uniform(0.5, 2))
        st = ex.stepper.reaction.FisherKPP(D, L, N, 0.01, reactivity=r, dealiasing_fraction=frac)
        return st._integrator._nonlinear_fun, "poly", dict(coefficients=[0.0, 0.0, -r]), False
    if form == "allen_cahn_stepper":
        c3 = -float(rng.uniform(0.5, 2))
        st = ex.stepper.reaction.AllenCahn(D, L, N, 0.01, third_order_coefficient=c3, dealiasing_fraction=frac)
        return st._integrator._nonlinear_fun, "poly", dict(coefficients=[0.0, 0.0, 0.0, c3]), False
    if form == "swift_stepper":
        co = [0.0, 0.0, float(rng.uniform(0.5, 1.5)), -float(rng.uniform(0.5, 1.5))]
        st = ex.stepper.reaction.SwiftHohenberg(D, L, N, 0.01, polynomial_coefficients=tuple(co), dealiasing_fraction=frac)
        return st._integrator._nonlinear_fun, "poly", dict(coefficients=co), False
    raise KeyError(form)


def rfft_to_full_norm(rh, D, N):
    u = np.fft.irfftn(rh, s=(N,) * D, axes=G.axes(D))
    return G.fftn(u, D) / N ** D


def run_case(case, bus, ex):
    import jax.numpy as jnp
    from fractions import Fraction
    if case["kind"] == "masksweep":
        return run_masksweep(case, bus, ex)
    rng = env.rng_for(*case["rs"])
    form, D, N = case["form"], case["D"], case["N"]
    frac = float(Fraction(case["frac"]))
    L = float(rng.choice([1.0, 2 * np.pi, 10 ** rng.uniform(-1, 1.3)]))
    fun, opname, params, project = build(ex, form, D, N, L, frac, rng)
    bus.tap("nonlinear_fun.__init__")
    K = A.documented_cutoff(N, Fraction(case["frac"]))
    sig = (form, D, N % 12, case["frac"])
    # -- the stored mask is the documented band
    mask_code = np.asarray(fun.dealiasing_mask)[0] if getattr(fun, "dealiasing_mask", None) is not None else None
    if form == "general":
        mask_code = np.asarray(fun.convection_nonlinear_fun.dealiasing_mask)[0]
    kr = G.kint_rfft(D, N)
    want_mask = np.all(np.abs(kr) <= K, axis=0) if K >= 0 else np.zeros(kr.shape[1:], bool)
    if mask_code is not None:
        bad = int(np.sum(mask_code != want_mask))
        bus.judge("band_cutoff", float(bad), 0.5, sig, witness=dict(form=form, D=D, N=N, frac=case["frac"], K_documented=K, mismatching_modes=bad),
                  sample=dict(form=form, D=D, N=N, frac=case["frac"], K=K, kept=int(want_mask.sum())))
    C = FORMS[form][1](D)
    for amp in (1.0, float(10 ** rng.uniform(-3, 2))):
        u = G.random_state(rng, "white", C, D, N, amp=amp)
        uh = np.fft.rfftn(u, axes=G.axes(D))
        got_r = np.asarray(fun(jnp.asarray(uh)))
        bus.tap("nonlinear_fun.__call__")
        got = rfft_to_full_norm(got_r, D, N)
        ref, S, mask = A.evaluate(opname, params, u, D, N, L, K, project=project)
        tol = 512 * EPS * (1 + np.log2((4 * N) ** D)) * S
        inb = mask[None] & np.ones(got.shape, bool)
        err_in = float(np.max(np.abs(got - ref) * inb)) if mask.any() else 0.0
        nontriv = bool(mask.sum() > 1 and np.max(np.abs(ref)) > 0)
        bus.judge("alias_free", err_in, tol, sig, sample=dict(form=form, D=D, N=N, L=L, frac=case["frac"], K=K, params=params, amp=amp, refmax=float(np.max(np.abs(ref)))),
                  witness=dict(form=form, D=D, N=N, L=L, frac=case["frac"], K=K, params=params, err=err_in, refmax=float(np.max(np.abs(ref))), S=S), nontrivial=nontriv)
        # outside band: use the stored half spectrum directly (Nyquist rows are not Hermitian-symmetrisable)
        out_r = np.abs(got_r) * (~want_mask)[None] / N ** D
        bus.judge("outside_band", float(np.max(out_r)) if out_r.size else 0.0, tol, sig, witness=dict(form=form, D=D, N=N, K=K), nontrivial=bool((~want_mask).any()))
