"""C11  Dissipative and dispersive linear steppers never amplify any state.

Monitors (the reference symbol is rebuilt from the caller's intent; only configurations with Re sigma <= 0 on every grid mode are judged):
  non_amplification  ||st(u)||_2 <= ||u||_2 (1+tol) for white noise / checkerboards / constants, dt up to 1e6
  strict_decay       diffusion / hyper-diffusion: every non-constant stored mode has |multiplier| < 1 (<= 1 when |dt sigma| is below rounding), DC == 1
  norm_preserved     advection / dispersion on odd N or Nyquist-free states: | ||st(u)|| / ||u|| - 1 | <= tol
  wave_energy        sum |v_hat|^2 + c^2 |k|^2 |h_hat|^2 preserved on odd N / Nyquist-free states
  monotone_history   along a rollout the norm sequence is non-increasing
"""
import numpy as np
from rv import env, zoo, linref
from rv.refmodel import grid as G

PROP = "C11"
RULE = ("cases = linear class variant x D x N odd/even x L x dt in [1e-4,1e6] x coefficient draw (sign-flipped draws are generated and classified outside); states = white "
        "noise, checkerboard+noise, constants, Nyquist-free noise at amplitudes 1e-8..1e3; distinct = (monitor, class, flags, D, N parity, dt regime, state class); "
        "non-trivial = non-constant state")
REQUIRED = {"non_amplification": {"quick": 300, "thorough": 2000}, "strict_decay": {"quick": 20, "thorough": 100}, "norm_preserved": {"quick": 40, "thorough": 300},
            "wave_energy": {"quick": 10, "thorough": 60}, "monotone_history": {"quick": 40, "thorough": 300}}
ASSUMPTIONS = ["applicability (Re sigma <= 0 on all grid modes) is classified with the model's symbol, amplifying configurations are counted outside_precondition"]
AMBIENT = True            # thorough tier: the repository's own test-suite runs under this property's general monitor (rv/ambient.py)
REQUIRED_AMBIENT = {'ambient_non_amplification': 60}
TIMEOUT = {"quick": 2400, "thorough": 7200}
EPS = np.finfo(float).eps
LIN = [n for n, s in zoo.SPECS.items() if s["linear"] and n != "stepper.Wave"]


def cases(tier, seed):
    out = []
    for name in LIN + ["stepper.Wave"]:
        spec = zoo.SPECS[name]
        for D in (1, 2, 3):
            Ns = {1: [7, 16], 2: [5, 8], 3: [4, 5]}[D] if tier == "quick" else {1: [3, 4, 9, 16, 33, 64], 2: [3, 4, 7, 12, 24], 3: [3, 4, 7, 12]}[D]
            for N in Ns:
                for v in range(spec["nvar"]):
                    for rep in range(1 if tier == "quick" else 2):
                        out.append(dict(kind="lin", cls=name, D=D, N=N, v=v, rs=[seed, env.crc(name), D, N, v, rep], cost=N ** D / 50 + 1))
    return out


def norm(u):
    return float(np.sqrt(np.mean(np.asarray(u, float) ** 2)))


def run_case(case, bus, ex):
    import jax, jax.numpy as jnp
    rng = env.rng_for(*case["rs"])
    name, D, N, v = case["cls"], case["D"], case["N"], case["v"]
    L = float([1.0, 2 * np.pi, 0.37, 11.0, 40.0, 10 ** rng.uniform(-2, 2)][(N + D + v + case["rs"][-1]) % 6])        # box sizes below and above 2 pi are reached deterministically
    dt = float(10 ** rng.uniform(-4, 6))
    it = zoo.make_intent(rng, name, D, N, L=L, dt=dt, variant=v)
    if rng.uniform() < 0.12 and name != "stepper.Wave":      # hostile: flip a dissipative coefficient -> must be classified outside
        for k in ("diffusivity", "hyper_diffusivity"):
            if k in it["kw"] and isinstance(it["kw"][k], float):
                it["kw"][k] = -it["kw"][k]
    st = zoo.build(ex, it)
    flags = tuple(sorted((k, x) for k, x in it["kw"].items() if isinstance(x, bool)))
    if name == "stepper.Wave":
        return run_wave(bus, ex, rng, it, st, D, N)
    Lr, dtr = linref.eff(it)
    kr = G.kint_rfft(D, N)
    K = kr * (2 * np.pi / Lr)
    sig_ = linref.symbol(it, K)
    zabs = abs(dtr) * linref.symbol_abs(it, K)
    if float(np.max(sig_.real)) > 1e-14 * (1 + float(np.max(linref.symbol_abs(it, K)))):
        bus.outside("non_amplification", "Re sigma > 0 for some grid mode")
        return
    z = dtr * sig_
    reg = "mild" if np.max(np.abs(z)) < 1 else ("stiff" if np.max(np.abs(z)) < 1e3 else "extreme")
    sig = (name, flags, D, N % 2, reg)
    info = dict(intent=it)
    logn = 1 + np.log2(N ** D)
    tol = 64 * EPS * logn
    stj = jax.jit(lambda x: st(x))
    purely_imag = float(np.max(np.abs(sig_.real))) <= 1e-14 * (1 + float(np.max(linref.symbol_abs(it, K))))
    for kind in ("white", "checker", "nyqfree", "const"):
        amp = float(10 ** rng.uniform(-8, 3))
        u = G.random_state(rng, kind, 1, D, N, amp=amp)
        o = np.asarray(stj(jnp.asarray(u)))
        bus.tap("__call__")
        n0, n1 = norm(u), norm(o)
        bus.judge("non_amplification", (n1 - n0) / (n0 + 1e-300), tol, sig + (kind,), sample=dict(info, state=kind, amp=amp, ratio=n1 / (n0 + 1e-300)),
                  witness=dict(info, state=kind, amp=amp, n0=n0, n1=n1), nontrivial=kind != "const")
        if purely_imag and (N % 2 == 1 or kind in ("nyqfree", "const")):
            bus.judge("norm_preserved", abs(n1 / n0 - 1), tol, sig + (kind,), sample=dict(info, state=kind), witness=dict(info, state=kind, n0=n0, n1=n1), nontrivial=kind != "const")
    # strict decay of every non-constant mode for (hyper-)diffusion
    if name in ("stepper.Diffusion", "stepper.HyperDiffusion"):
        m = np.abs(np.asarray(st.step_fourier(jnp.ones((1,) + kr.shape[1:], dtype=complex)))[0])
        nonconst = np.any(kr != 0, axis=0)
        resolvable = np.abs(z) > 8 * EPS
        bad = int(np.sum((m > 1.0) & nonconst) + np.sum((m >= 1.0) & nonconst & resolvable))
        dc_ok = abs(m[(0,) * D] - 1.0) <= 4 * EPS
        bus.judge("strict_decay", float(bad) + (0.0 if dc_ok else 1.0), 0.5, sig, sample=dict(info, modes=int(nonconst.sum()), max_mult=float(np.max(m[nonconst])) if nonconst.any() else 0.0),
                  witness=dict(info, bad_modes=bad, dc=float(m[(0,) * D])))
    # history: non-increasing norm sequence
    u = G.random_state(rng, "white", 1, D, N)
    n = 20
    trj = np.asarray(jax.jit(ex.rollout(st, n, include_init=True))(jnp.asarray(u)))
    ns = np.array([norm(x) for x in trj])
    inc = float(np.max((ns[1:] - ns[:-1]) / (ns[:-1] + 1e-300)))
    bus.judge("monotone_history", inc, tol, sig, sample=dict(info, n=n, first=float(ns[0]), last=float(ns[-1])), witness=dict(info, norms=ns.tolist()))


def run_wave(bus, ex, rng, it, st, D, N):
    import jax.numpy as jnp
    c, dt, L = it["kw"]["speed_of_sound"], it["dt"], it["L"]
    kmaxp = 2 * np.pi / L * (N // 2) * np.sqrt(D)
    if abs(c * kmaxp * dt) > 1e6:
        it = dict(it, dt=float(1e6 / (c * kmaxp)))
        st = zoo.build(ex, it)
        dt = it["dt"]
    kf = G.kint_full(D, N).astype(float) * (2 * np.pi / L)
    k2 = (kf ** 2).sum(0)

    def energy(w):
        wh = G.fftn(w, D)
        return float(np.sum(np.abs(wh[1]) ** 2 + c ** 2 * k2 * np.abs(wh[0]) ** 2))
    for kind in (["white", "nyqfree", "band"] if N % 2 else ["nyqfree", "band"]):
        u = G.random_state(rng, kind, 2, D, N)
        u[1] -= u[1].mean()          # energy claim concerns the oscillating part; the k=0 drift of h carries no energy
        cur = jnp.asarray(u)
        e0 = energy(u)
        worst = 0.0
        for i in range(5):
            cur = st(cur)
            worst = max(worst, abs(energy(np.asarray(cur)) / e0 - 1))
        zmax = abs(c * kmaxp * dt)
        bus.judge("wave_energy", worst, 256 * EPS * (1 + np.log2(N ** D)) * 5 * (1 + min(zmax, 1e6)) ** 0 * (1 + np.log10(1 + zmax)), ("stepper.Wave", D, N % 2, kind),
                  sample=dict(intent=it, state=kind, e0=e0), witness=dict(intent=it, state=kind, drift=worst))
