"""C04  Grid, FFT and Fourier-coefficient conventions are mutually consistent.

Contracts on the pure helpers against independent re-derivations (full complex FFT, analytic DFT of a single cosine, set
definitions of the masks):
  roundtrip, mode_location (every stored mode, exhaustive), scaling_arrays, norm_forward, reconstruction, coef_extraction,
  modes_slices, masks, grid, wrap_bc, indexing (ij/xy: grid/wavenumbers/scaling/transforms fit together).
"""
import itertools
import numpy as np
from rv import env
from rv.refmodel import grid as G

PROP = "C04"
RULE = ("cases = D x N (odd and even) x helper; mode_location enumerates EVERY stored wavenumber vector of the rfft layout for each (D,N) "
        "with random amplitude/phase (exhaustive over modes); distinct = (monitor, D, N, mode class: dc/nyquist/negative-leading/interior, "
        "indexing, scaling mode); non-trivial = a mode with k != 0 or a state with non-zero content")
EXHAUSTIVE = True
REQUIRED = {"roundtrip": {"quick": 30, "thorough": 150}, "mode_location": {"quick": 200, "thorough": 1000}, "scaling_arrays": {"quick": 40, "thorough": 80},
            "norm_forward": 10, "reconstruction": 10, "coef_extraction": 30, "modes_slices": 10, "masks": 30, "grid": 20, "wrap_bc": 6, "indexing": 10}
ASSUMPTIONS = ["oblique plane waves are not promised by coef_extraction (tensor-product signals are)", "float64 session except the float32 round trips"]
AMBIENT = True            # thorough tier: the repository's own test-suite runs under this property's general monitor (rv/ambient.py)
REQUIRED_AMBIENT = {'ambient_fft_roundtrip': 1000}
TIMEOUT = {"quick": 2400, "thorough": 7200}
EPS = np.finfo(float).eps


def cases(tier, seed):
    out = []
    if tier == "quick":
        Ns = {1: [3, 4, 5, 8, 11, 12], 2: [3, 4, 5, 6, 8], 3: [3, 4, 5]}
    else:
        Ns = {1: list(range(3, 17)) + [32, 33], 2: list(range(3, 13)), 3: list(range(3, 9))}
    for D in (1, 2, 3):
        for N in Ns[D]:
            out.append(dict(kind="modes", D=D, N=N, rs=[seed, 1, D, N], cost=N ** D / 20 + 1))
            out.append(dict(kind="helpers", D=D, N=N, rs=[seed, 2, D, N], cost=2))
            out.append(dict(kind="indexing", D=D, N=N, rs=[seed, 3, D, N], cost=2))
    # every grid size of a range in 1D (cheap): float-step / parity slips that need a particular (L, N) pair cannot hide between the sampled sizes
    top = 320 if tier == "quick" else 1100
    for lo in range(2, top, 40):
        out.append(dict(kind="sweep1d", lo=lo, hi=min(top, lo + 40), rs=[seed, 5, lo], cost=3))
    for D in (1, 2, 3):
        for N in Ns[D][:3]:
            out.append(dict(kind="roundtrip32", D=D, N=N, x64=False, rs=[seed, 4, D, N], cost=1))
    return out


def mode_class(k, N):
    if all(x == 0 for x in k):
        return "dc"
    if N % 2 == 0 and any(abs(x) == N // 2 for x in k):
        return "nyquist"
    if any(x < 0 for x in k[:-1]):
        return "negative-leading"
    return "interior"


def analytic_dft(D, N, k, a, phi):
    """Full-layout DFT of a*cos(2 pi k.x/L + phi) sampled at x_j = j L/N (exact)."""
    out = np.zeros((N,) * D, complex)
    kp = tuple(x % N for x in k)
    km = tuple((-x) % N for x in k)
    out[kp] += 0.5 * a * N ** D * np.exp(1j * phi)
    out[km] += 0.5 * a * N ** D * np.exp(-1j * phi)
    return out


def run_modes(case, bus, ex):
    import jax.numpy as jnp
    rng = env.rng_for(*case["rs"])
    D, N = case["D"], case["N"]
    L = float(rng.choice([1.0, 2 * np.pi, 3.3]))
    X = np.asarray(ex.make_grid(D, L, N))          # the library's own grid
    W = np.asarray(ex.spectral.build_wavenumbers(D, N))
    bus.tap("make_grid"); bus.tap("build_wavenumbers")
    if W.shape != (D,) + (N,) * (D - 1) + (N // 2 + 1,):
        bus.flag("mode_location", f"wavenumber array shape {W.shape}", (D, N))
        return
    for idx in np.ndindex(*W.shape[1:]):
        k = tuple(int(round(float(W[(d,) + idx]))) for d in range(D))
        a = float(rng.uniform(0.3, 2.0))
        phi = float(rng.uniform(0, 2 * np.pi))
        u = a * np.cos(sum(2 * np.pi * k[d] / L * X[d] for d in range(D)) + phi)
        got = np.asarray(ex.fft(jnp.asarray(u[None])))[0]
        bus.tap("fft")
        ref = analytic_dft(D, N, k, a, phi)[..., : N // 2 + 1]
        err = float(np.max(np.abs(got - ref))) / (a * N ** D)
        # the named index must carry the mode
        at = abs(got[idx] - ref[idx]) / (a * N ** D)
        bus.judge("mode_location", max(err, at), 64 * EPS * (1 + np.log2(N ** D)) * max(1, max(abs(x) for x in k)),
                  (D, N, mode_class(k, N)), sample=dict(D=D, N=N, L=L, k=list(k), index=list(idx), a=a, phi=phi),
                  witness=dict(D=D, N=N, L=L, k=list(k), index=list(idx), got=complex(got[idx]), ref=complex(ref[idx]), err=err),
                  nontrivial=any(k))
        # get_fourier_coefficients: documented read-off for axis-aligned single cosines (tensor product with one factor)
    # tensor-product read-off under coef_extraction
    K = (N - 1) // 2
    for trial in range(6 if D > 1 else 4):
        k = tuple(int(x) for x in rng.integers(0, K + 1, size=D))
        kinds = [str(rng.choice(["cos", "sin"])) if k[d] > 0 else "cos" for d in range(D)]
        a = float(rng.uniform(0.5, 3.0))
        u = a * np.ones((N,) * D)
        for d in range(D):
            arg = 2 * np.pi * k[d] / L * X[d]
            u = u * (np.cos(arg) if kinds[d] == "cos" else np.sin(arg))
        c = np.asarray(ex.spectral.get_fourier_coefficients(jnp.asarray(u[None]), round=None))[0]
        bus.tap("get_fourier_coefficients")
        c5 = np.asarray(ex.spectral.get_fourier_coefficients(jnp.asarray(u[None])))[0]          # documented default: rounded to 5 decimals
        bus.judge("coef_extraction", float(np.max(np.abs(c5 - np.round(c, 5)))), 1.1e-5 * 1e-6 + 1e-12, (D, N % 2, "round=5"), witness=dict(D=D, N=N, k=list(k), what="default rounding to 5 decimals"))
        mag = np.abs(c)
        expect = np.zeros_like(mag)
        for signs in itertools.product(*[([1, -1] if (d < D - 1 and k[d] > 0) else [1]) for d in range(D)]):
            kk = tuple(s * x for s, x in zip(signs, k))
            sel = np.all(np.stack([np.rint(W[d]) == kk[d] for d in range(D)]), axis=0)
            expect[sel] = a
        bus.judge("coef_extraction", float(np.max(np.abs(mag - expect))) / a, 256 * EPS * (1 + np.log2(N ** D)), (D, N % 2, tuple(kinds)),
                  sample=dict(D=D, N=N, k=list(k), kinds=kinds, a=a), witness=dict(D=D, N=N, k=list(k), kinds=kinds, a=a, maxdev=float(np.max(np.abs(mag - expect)))),
                  nontrivial=any(k))


def ref_scaling(D, N, mode):
    k = G.kint_rfft(D, N)
    if mode == "norm_compensation":
        return np.full(k.shape[1:], float(N ** D))[None]
    if mode == "reconstruction":
        last = k[-1]
        half = (last > 0) & ((last < N / 2) if N % 2 == 0 else np.ones_like(last, bool))
        return np.where(half, N ** D / 2.0, float(N ** D))[None]
    out = np.ones(k.shape[1:])
    for d in range(D):
        special = (k[d] == 0) | ((np.abs(k[d]) * 2 == N) if N % 2 == 0 else np.zeros_like(k[d], bool))
        out = out * np.where(special, float(N), N / 2.0)
    return out[None]


def run_helpers(case, bus, ex):
    import jax.numpy as jnp
    rng = env.rng_for(*case["rs"])
    D, N = case["D"], case["N"]
    sp = ex.spectral
    L = float(10 ** rng.uniform(-1, 1))
    # ---- round trip (white noise, checkerboard, several channel counts)
    for C, kind in ((1, "white"), (3, "white"), (2, "checker"), (1, "const")):
        u = G.random_state(rng, kind, C, D, N)
        uh = ex.fft(jnp.asarray(u))
        back = np.asarray(ex.ifft(uh, num_spatial_dims=D, num_points=N))
        bus.tap("fft"); bus.tap("ifft")
        refh = np.fft.fftn(u, axes=G.axes(D))[..., : N // 2 + 1]
        e1 = float(np.max(np.abs(np.asarray(uh) - refh))) / (np.max(np.abs(refh)) + 1e-300)
        bus.judge("roundtrip", max(float(np.max(np.abs(back - u))) / (np.max(np.abs(u)) + 1e-300), e1), 64 * EPS * (1 + np.log2(N ** D)),
                  (D, N % 2, C, kind, "f64"), sample=dict(D=D, N=N, C=C, state=kind), witness=dict(D=D, N=N, C=C, state=kind))
        if D >= 2:
            back2 = np.asarray(ex.ifft(uh))      # inferred sizes
            bus.judge("roundtrip", float(np.max(np.abs(back2 - u))) / (np.max(np.abs(u)) + 1e-300), 64 * EPS * (1 + np.log2(N ** D)), (D, N % 2, C, kind, "inferred"))
    # ---- scaling arrays: formula and semantics
    for mode in ("norm_compensation", "reconstruction", "coef_extraction"):
        got = np.asarray(sp.build_scaling_array(D, N, mode=mode))
        bus.tap("build_scaling_array")
        ref = ref_scaling(D, N, mode)
        ok = got.shape == ref.shape and np.array_equal(got, ref)
        if D >= 2:      # "xy" only transposes the first two (equally long, equally treated) axes: the scaling array must coincide with the "ij" one and fit the rfft output
            gxy = np.asarray(sp.build_scaling_array(D, N, mode=mode, indexing="xy"))
            okxy = gxy.shape == ref.shape and np.array_equal(gxy, ref)
            bus.judge("scaling_arrays", 0.0 if okxy else 1.0, 0.5, (D, N, mode, "xy"), witness=dict(D=D, N=N, mode=mode, indexing="xy", shape=list(gxy.shape)))
        bus.judge("scaling_arrays", 0.0 if ok else 1.0, 0.5, (D, N, mode), sample=dict(D=D, N=N, mode=mode),
                  witness=dict(D=D, N=N, mode=mode, shape=list(got.shape), nbad=int(np.sum(got != ref)) if got.shape == ref.shape else -1))
    u = G.random_state(rng, "white", 2, D, N)
    uh = np.asarray(ex.fft(jnp.asarray(u)))
    fwd = np.fft.rfftn(u, axes=G.axes(D), norm="forward")
    bus.judge("norm_forward", float(np.max(np.abs(uh / np.asarray(sp.build_scaling_array(D, N, mode="norm_compensation")) - fwd))) / np.max(np.abs(fwd)),
              64 * EPS * (1 + np.log2(N ** D)), (D, N % 2))
    # reconstruction: Re sum_stored c e^{i k x} reproduces u at the grid points
    c = uh / np.asarray(sp.build_scaling_array(D, N, mode="reconstruction"))
    kr = G.kint_rfft(D, N)
    Xi = np.indices((N,) * D)
    rec = np.zeros_like(u)
    for idx in np.ndindex(*kr.shape[1:]):
        ph = np.exp(2j * np.pi * sum(kr[(d,) + idx] * Xi[d] for d in range(D)) / N)
        rec += np.real(c[(slice(None),) + idx][(slice(None),) + (None,) * D] * ph[None])
    bus.judge("reconstruction", float(np.max(np.abs(rec - u))) / np.max(np.abs(u)), 256 * EPS * (1 + np.log2(N ** D)), (D, N % 2),
              witness=dict(D=D, N=N))
    # ---- modes slices: a partition into sign-uniform blocks, same wavenumbers on a larger grid
    for Nbig in (N, N + 1, N + 3, 2 * N):
        sl = sp.get_modes_slices(D, N)
        bus.tap("get_modes_slices")
        ws, wb = G.kint_rfft(D, N), G.kint_rfft(D, Nbig)
        cover = np.zeros(ws.shape[1:], int)
        ok = len(sl) == 2 ** (D - 1)
        for s in sl:
            ok &= (len(s) == D + 1 and s[0] == slice(None))
            cover[s[1:]] += 1
            a, b = ws[(slice(None),) + s[1:]], wb[(slice(None),) + s[1:]]
            ok &= a.shape == b.shape and np.array_equal(a, b)
            for d in range(D - 1):
                vals = a[d]
                ok &= bool(np.all(vals >= 0) or np.all(vals < 0))
        ok &= bool(np.all(cover == 1))
        bus.judge("modes_slices", 0.0 if ok else 1.0, 0.5, (D, N, Nbig - N), witness=dict(D=D, N=N, Nbig=Nbig, slices=repr(sl)[:300]), sample=dict(D=D, N=N, Nbig=Nbig))
    # ---- masks
    kf = G.kint_rfft(D, N)
    for cutoff in sorted({0, 1, N // 3, N // 2 - 1, N // 2, N}):
        for sep in (True, False):
            got = np.asarray(sp.low_pass_filter_mask(D, N, cutoff=cutoff, axis_separate=sep))
            bus.tap("low_pass_filter_mask")
            ref = (np.all(np.abs(kf) <= cutoff, axis=0) if sep else (np.sqrt((kf.astype(float) ** 2).sum(0)) <= cutoff))[None]
            ok = got.shape == ref.shape and np.array_equal(got, ref)
            bus.judge("masks", 0.0 if ok else 1.0, 0.5, (D, N % 2, "lowpass", sep, cutoff >= N // 2), witness=dict(D=D, N=N, cutoff=cutoff, sep=sep))
    got = np.asarray(sp.oddball_filter_mask(D, N))
    ref = (~G.nyquist_mask(kf, N))[None]
    bus.judge("masks", 0.0 if (got.shape == ref.shape and np.array_equal(got, ref)) else 1.0, 0.5, (D, N % 2, "oddball"), witness=dict(D=D, N=N))
    # ---- grid
    for full in (False, True):
        for zc in (False, True):
            g = np.asarray(ex.make_grid(D, L, N, full=full, zero_centered=zc))
            bus.tap("make_grid")
            n = N + 1 if full else N
            x1 = np.arange(n) * (L / N) - (L / 2 if zc else 0.0)
            ref = np.stack(np.meshgrid(*([x1] * D), indexing="ij"))
            ok = g.shape == ref.shape
            err = float(np.max(np.abs(g - ref))) / L if ok else np.inf
            bus.judge("grid", err, 8 * EPS, (D, N % 2, full, zc), witness=dict(D=D, N=N, L=L, full=full, zc=zc, shape=list(g.shape)), sample=dict(D=D, N=N, L=L, full=full, zero_centered=zc))
    u = G.random_state(rng, "white", 2, D, N)
    w = np.asarray(ex.wrap_bc(jnp.asarray(u)))
    ref = np.pad(u, ((0, 0),) + ((0, 1),) * D, mode="wrap")
    ok = w.shape == ref.shape and np.array_equal(w, ref)
    full = np.asarray(ex.make_grid(D, L, N, full=True))
    ok &= w.shape[1:] == full.shape[1:]
    bus.judge("wrap_bc", 0.0 if ok else 1.0, 0.5, (D, N % 2), witness=dict(D=D, N=N, shape=list(w.shape)))


def run_indexing(case, bus, ex):
    """Both meshgrid indexings must give grids, wavenumbers, scalings and transforms that fit together."""
    import jax.numpy as jnp
    rng = env.rng_for(*case["rs"])
    D, N = case["D"], case["N"]
    L = float(rng.choice([1.0, 2 * np.pi, 2.7]))
    sp = ex.spectral
    for ind in ("ij", "xy"):
        sig = (D, N % 2, ind)
        wit = dict(D=D, N=N, L=L, indexing=ind)
        try:
            g = np.asarray(ex.make_grid(D, L, N, indexing=ind))
            m = int(rng.integers(1, max(2, (N - 1) // 2 + 1)))
            for a in range(D):
                u = np.sin(2 * np.pi * m * g[a] / L)
                du = np.asarray(ex.derivative(jnp.asarray(u[None]), L, indexing=ind))
                bus.tap("derivative")
                ref = np.zeros((D,) + (N,) * D)     # single-channel input: documented result shape (D, ...)
                ref[a] = (2 * np.pi * m / L) * np.cos(2 * np.pi * m * g[a] / L)
                ok_shape = du.shape == ref.shape
                err = float(np.max(np.abs(du - ref))) / (2 * np.pi * m / L) if ok_shape else np.inf
                bus.judge("indexing", err, 256 * EPS * (1 + np.log2(N ** D)) * m, sig + ("derivative", a),
                          witness=dict(wit, what="derivative of sin along coordinate", coord=a, m=m, shape=list(du.shape), err=err), sample=dict(wit, coord=a, m=m))
            # wavenumbers / scaling broadcast against the transform and name the modes of a tensor-product signal
            W = np.asarray(sp.build_wavenumbers(D, N, indexing=ind))
            Sc = np.asarray(sp.build_scaling_array(D, N, mode="coef_extraction", indexing=ind))
            uh_shape = np.asarray(ex.fft(jnp.zeros((1,) + (N,) * D))).shape
            okb = W.shape[1:] == uh_shape[1:] and Sc.shape[1:] == uh_shape[1:]
            bus.judge("indexing", 0.0 if okb else 1.0, 0.5, sig + ("shapes",), witness=dict(wit, what="shape of wavenumbers/scaling vs rfft output", W=list(W.shape), S=list(Sc.shape), uh=list(uh_shape)))
            if okb and (N - 1) // 2 >= 1:
                K = (N - 1) // 2
                k = tuple(int(x) for x in rng.integers(1, K + 1, size=D))
                a0 = float(rng.uniform(0.5, 2))
                u = a0 * np.ones((N,) * D)
                for d in range(D):
                    u = u * np.cos(2 * np.pi * k[d] / L * g[d])
                c = np.abs(np.asarray(sp.get_fourier_coefficients(jnp.asarray(u[None]), round=None, indexing=ind))[0])
                sel = np.all(np.stack([np.abs(np.rint(W[d])) == k[d] for d in range(D)]), axis=0)
                expect = np.where(sel, a0, 0.0)
                bus.judge("indexing", float(np.max(np.abs(c - expect))) / a0, 256 * EPS * (1 + np.log2(N ** D)), sig + ("coef_readoff",),
                          witness=dict(wit, what="tensor-product cosine read off at the index the wavenumber array names", k=list(k)))
            # interpolator at the grid's own points
            if D >= 1:
                u = G.remove_nyquist(G.random_state(rng, "white", 1, D, N), D)
                fi = ex.FourierInterpolator(jnp.asarray(u), domain_extent=L, indexing=ind)
                pts = [tuple(int(x) for x in rng.integers(0, N, size=D)) for _ in range(4)]
                worst = 0.0
                for p in pts:
                    x = jnp.asarray([g[(d,) + p] for d in range(D)])
                    worst = max(worst, abs(float(np.asarray(fi(x))[0]) - u[(0,) + p]))
                bus.judge("indexing", worst / np.max(np.abs(u)), 1024 * EPS * N ** D, sig + ("interpolator",), witness=dict(wit, what="FourierInterpolator at its own grid points"))
            if D >= 2:
                # make_incompressible: divergence with the coordinate<->axis map of this indexing must vanish
                v = G.remove_nyquist(G.random_state(rng, "white", D, D, N), D)
                w = np.asarray(sp.make_incompressible(jnp.asarray(v), indexing=ind))
                ax_of_coord = list(range(D))
                if ind == "xy":
                    ax_of_coord[0], ax_of_coord[1] = 1, 0
                kfull = G.kint_full(D, N).astype(float)
                wh = G.fftn(w, D)
                div = sum(1j * kfull[ax_of_coord[c_]] * wh[c_] for c_ in range(D))
                bus.judge("indexing", float(np.max(np.abs(div))) / (np.max(np.abs(G.fftn(v, D))) * N / 2), 1024 * EPS, sig + ("make_incompressible",),
                          witness=dict(wit, what="divergence after make_incompressible"))
        except Exception as e:  # noqa: BLE001
            bus.flag("indexing", f"{type(e).__name__}: {str(e)[:160]}", sig + ("raises",), witness=dict(wit, what="exception", exc=type(e).__name__))


def run_roundtrip32(case, bus, ex):
    import jax.numpy as jnp
    rng = env.rng_for(*case["rs"])
    D, N = case["D"], case["N"]
    u = G.random_state(rng, "white", 2, D, N).astype(np.float32)
    uh = ex.fft(jnp.asarray(u))
    back = ex.ifft(uh, num_spatial_dims=D, num_points=N)
    ok_dtype = str(uh.dtype) == "complex64" and str(back.dtype) == "float32"
    e32 = float(np.finfo(np.float32).eps)
    bus.judge("roundtrip", float(np.max(np.abs(np.asarray(back) - u))) / float(np.max(np.abs(u))) if ok_dtype else np.inf, 64 * e32 * (1 + np.log2(N ** D)), (D, N % 2, 2, "white", "f32"),
              witness=dict(D=D, N=N, dtypes=[str(uh.dtype), str(back.dtype)]))


SWEEP_L = [1.0, 2 * np.pi, 3.0, 0.5, 5.0, 20.0, 60.0, 100.0, 0.37, 4 * np.pi]


def run_sweep1d(case, bus, ex):
    """All N of a range x ten box sizes in 1D: grid points are exactly j L / N (N points, right end excluded; N + 1 with full=True), wavenumbers are the
    integers of the rfft layout, the three scaling arrays follow their formula, and one cosine of the highest regular mode is located and extracted."""
    import jax.numpy as jnp
    sp = ex.spectral
    for N in range(case["lo"], case["hi"]):
        for L in SWEEP_L:
            for full in (False, True):
                g = np.asarray(ex.make_grid(1, L, N, full=full))
                bus.tap("make_grid")
                n = N + 1 if full else N
                ref = (np.arange(n) * (L / N))[None]
                ok = g.shape == ref.shape
                err = float(np.max(np.abs(g - ref))) / L if ok else np.inf
                bus.judge("grid", err, 8 * EPS, (1, "sweep", N % 2, full, N // 64), witness=dict(D=1, N=N, L=L, full=full, shape=list(g.shape), note="1D sweep over all N"))
        kw = np.asarray(sp.build_wavenumbers(1, N))
        bus.tap("build_wavenumbers")
        refk = np.arange(N // 2 + 1, dtype=float)[None]
        okk = kw.shape == refk.shape
        bus.judge("mode_location", float(np.max(np.abs(kw - refk))) if okk else np.inf, 64 * EPS * N, (1, "sweep wavenumbers", N % 2, N // 64), witness=dict(D=1, N=N, shape=list(kw.shape), note="integer wavenumbers of the rfft layout"))
        for mode in ("norm_compensation", "reconstruction", "coef_extraction"):
            got = np.asarray(sp.build_scaling_array(1, N, mode=mode))
            bus.tap("build_scaling_array")
            ref = ref_scaling(1, N, mode)
            ok = got.shape == ref.shape and np.array_equal(got, ref)
            bus.judge("scaling_arrays", 0.0 if ok else 1.0, 0.5, (1, "sweep", N % 2, mode, N // 64), witness=dict(D=1, N=N, mode=mode, nbad=int(np.sum(got != ref)) if got.shape == ref.shape else -1))
        for cutoff in sorted({1, N // 3, N // 2 - 1, N // 2} - {-1, 0}):          # inclusive integer cutoffs
            got = np.asarray(sp.low_pass_filter_mask(1, N, cutoff=cutoff))
            bus.tap("low_pass_filter_mask")
            ref = (np.arange(N // 2 + 1) <= cutoff)[None]
            ok = got.shape == ref.shape and np.array_equal(got, ref)
            bus.judge("masks", 0.0 if ok else 1.0, 0.5, (1, "sweep lowpass", N % 2, N // 64), witness=dict(D=1, N=N, cutoff=cutoff, kept=int(got.sum()), documented=int(ref.sum()), note="cutoff is inclusive"))
        if N >= 3:
            k = (N - 1) // 2                       # highest mode strictly below Nyquist
            a, phi = 1.3, 0.4
            u = (a * np.cos(2 * np.pi * ((k * np.arange(N)) % N) / N + phi))[None]          # phase reduced in integer arithmetic: the samples carry no O(eps k) argument error at large N
            c = np.asarray(sp.get_fourier_coefficients(jnp.asarray(u), round=None))
            bus.tap("get_fourier_coefficients")
            want = np.zeros(N // 2 + 1, complex)
            want[k] = a * np.exp(1j * phi)
            okc = c.shape == (1, N // 2 + 1)
            bus.judge("coef_extraction", float(np.max(np.abs(c[0] - want))) / a if okc else np.inf, 64 * EPS * (1 + np.log2(N)), (1, "sweep top mode", N % 2, N // 64), witness=dict(D=1, N=N, k=k, note="cosine of the highest regular mode"))


def run_case(case, bus, ex):
    return {"modes": run_modes, "helpers": run_helpers, "indexing": run_indexing, "roundtrip32": run_roundtrip32, "sweep1d": run_sweep1d}[case["kind"]](case, bus, ex)


def classify(v):
    w = v.get("witness") or {}
    if v["monitor"] == "indexing" and w.get("indexing") == "xy" and w.get("D") == 2:
        return "F2-xy-indexing-2d"
    return None
