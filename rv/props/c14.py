"""C14  rollout, repeat and the wrapper steppers equal the naive loop.

History + executable model.  Integer bookkeeping steppers u -> K*u + aux make histories unambiguous (the final value is a positional numeral
of the aux values in consumption order) and comparisons exact.  An ordered tap inside the scan records every execution.
Monitors: executions (exactly n, chained, aux in index order / held constant), rollout_entries, repeat_last, pytree_structure,
sub_trajectories (every window length 1..T, ValueErrors), repeated_stepper, forced_in_rollout, build_ic_set (== Python loop over the
same key splits, every public generator).
"""
import itertools
import numpy as np
from rv import env, zoo, taps, iczoo
from rv.refmodel import grid as G, loops

PROP = "C14"
RULE = ("bookkeeping grid n in 0..12 x include_init x takes_aux x constant_aux x 4 pytree shapes and T in 1..9 x every window length is enumerated completely (exhaustive); "
        "plus float steppers: RepeatedStepper over 8 inner classes x n, ForcedStepper in rollout, build_ic_set over every public IC generator and option set; "
        "distinct = (monitor, n, flags, pytree shape | class | generator); non-trivial = n >= 1")
EXHAUSTIVE = True
REQUIRED = {"executions": {"quick": 300, "thorough": 300}, "rollout_entries": {"quick": 300, "thorough": 300}, "repeat_last": {"quick": 150, "thorough": 150},
            "pytree_structure": {"quick": 300, "thorough": 300}, "sub_trajectories": {"quick": 50, "thorough": 50}, "repeated_stepper": {"quick": 30, "thorough": 150},
            "forced_in_rollout": {"quick": 4, "thorough": 20}, "build_ic_set": {"quick": 30, "thorough": 60}}
REQUIRED_TAPS = {"book:traced": 1000}
ASSUMPTIONS = ["RepeatedStepper vs n applications is judged on Nyquist-free states when N is even and the inner stepper has odd-order linear terms (the property's precondition)"]
TIMEOUT = {"quick": 2400, "thorough": 7200}
K = 10
PYTREES = ["array", "tuple", "dict", "mixed_dtype"]


def cases(tier, seed):
    out = []
    nmax = 12
    for shape in PYTREES:
        for n in range(0, nmax + 1):
            out.append(dict(kind="book", shape=shape, n=n, rs=[seed, env.crc(shape), n], cost=1))
    for T in range(1, 10):
        out.append(dict(kind="windows", T=T, rs=[seed, T], cost=0.5))
    inner = ["stepper.Burgers", "stepper.KortewegDeVries", "stepper.Diffusion", "stepper.Advection", "stepper.KuramotoSivashinsky", "reaction.GrayScott", "stepper.NavierStokesVorticity", "stepper.Wave"]
    for name in inner:
        for n in ([0, 1, 2, 5] if tier == "quick" else [0, 1, 2, 3, 5, 8, 13]):
            out.append(dict(kind="repeated", cls=name, n=n, rs=[seed, env.crc(name), n], cost=2))
    out.append(dict(kind="repeated_mixed", rs=[seed, 41], cost=1))
    for rep in range(2 if tier == "quick" else 8):
        out.append(dict(kind="forced", rs=[seed, rep, 5], cost=2))
    for D in (1, 2, 3):
        specs = iczoo.base_specs(D)
        specs += [dict(name="Scaled", inner=specs[0], scale=2.5), dict(name="Clamping", inner=specs[1], limits=[-0.5, 1.5]),
                  dict(name="MultiChannel", inner=[specs[0], specs[2], specs[-1]])]
        if tier == "quick":
            seen, sel = set(), []
            for s in specs:
                if s["name"] not in seen or D == 1 and s["name"] == "RandomSineWaves1d":
                    sel.append(s)
                    seen.add(s["name"])
            specs = sel
        for i, s in enumerate(specs):
            out.append(dict(kind="icset", D=D, spec=s, rs=[seed, D, i, 9], cost=1.5))
    return out


# ------------------------------------------------------------------------------------------- bookkeeping
def make_state(shape, jnp):
    if shape == "array":
        return jnp.asarray([1, 2, 3], dtype=jnp.int64)
    if shape == "tuple":
        return (jnp.asarray([1, 2], dtype=jnp.int64), jnp.asarray([[3]], dtype=jnp.int64))
    if shape == "dict":
        return {"a": jnp.asarray([1], dtype=jnp.int64), "b": (jnp.asarray(2, dtype=jnp.int64),)}
    return {"x": jnp.asarray([1, 2], dtype=jnp.int64), "y": jnp.asarray([3], dtype=jnp.int32)}


def run_book(case, bus, ex):
    import jax, jax.numpy as jnp, jax.tree_util as jtu
    shape, n = case["shape"], case["n"]
    u0 = make_state(shape, jnp)
    np_tree = lambda t: jtu.tree_map(lambda x: np.asarray(x), t)
    for include_init, takes_aux, constant_aux in itertools.product((False, True), (False, True), (False, True)):
        if not takes_aux and not constant_aux:
            continue        # constant_aux is meaningless without aux: one representative is enough
        if takes_aux:
            # aux = {"d": scalar digit, "v": vector with a leading axis of length 3 (distinct entries: a stacking mix-up of a constant aux would show)}
            step = lambda u, a: jtu.tree_map(lambda x: (x * K + a["d"].astype(x.dtype) + jnp.sum(a["v"] * jnp.asarray([1, 0, 0], dtype=a["v"].dtype)).astype(x.dtype)
                                                        + 0 * jnp.sum(a["v"]).astype(x.dtype)).astype(x.dtype), u)
            if constant_aux:
                aux_arg = {"d": jnp.asarray(3, dtype=jnp.int64), "v": jnp.asarray([4, 0, 1], dtype=jnp.int64)}
                aux_model = [{"d": np.int64(3), "v": np.asarray([4, 0, 1], dtype=np.int64)}] * n
            else:
                aux_arg = {"d": jnp.asarray([(i + 1) % 5 for i in range(n)], dtype=jnp.int64), "v": jnp.asarray([[(2 * i + 1) % 5, 9, 9] for i in range(n)], dtype=jnp.int64).reshape(n, 3)}
                aux_model = [{"d": np.int64((i + 1) % 5), "v": np.asarray([(2 * i + 1) % 5, 9, 9], dtype=np.int64)} for i in range(n)]
        else:
            step = lambda u: jtu.tree_map(lambda x: (x * K + 1).astype(x.dtype), u)
            aux_arg, aux_model = None, None
        sig = (shape, n, include_init, takes_aux, constant_aux)
        info = dict(pytree=shape, n=n, include_init=include_init, takes_aux=takes_aux, constant_aux=constant_aux)
        # naive model (numpy ints, wraps like the dtype)
        def step_np(u, a=None):
            return jtu.tree_map(lambda x: (x * K + (1 if a is None else a["d"] + a["v"][0])).astype(x.dtype), u)
        model = loops.rollout_model(step_np, np_tree(u0), n, include_init=include_init, auxs=aux_model)
        tap = taps.CallTap(step, "book", bus)
        try:
            ro = ex.rollout(tap, n, include_init=include_init, takes_aux=takes_aux, constant_aux=constant_aux)
            trj = ro(u0, aux_arg) if takes_aux else ro(u0)
            log = list(tap.flush())
            tap2 = taps.CallTap(step, "book", bus)
            rp = ex.repeat(tap2, n, takes_aux=takes_aux, constant_aux=constant_aux)
            last = rp(u0, aux_arg) if takes_aux else rp(u0)
            log2 = list(tap2.flush())
        except Exception as e:  # noqa: BLE001
            bus.flag("rollout_entries", f"{type(e).__name__}: {str(e)[:150]}", sig, witness=dict(info, exc=type(e).__name__))
            continue
        # ---- reuse: the SAME rollout / repeat objects called again with another state and another aux must not remember anything of the first call
        if n >= 1:
            u1 = jtu.tree_map(lambda x: (x + 3).astype(x.dtype), u0)
            if takes_aux:
                if constant_aux:
                    aux2 = {"d": jnp.asarray(2, dtype=jnp.int64), "v": jnp.asarray([1, 5, 5], dtype=jnp.int64)}
                    aux2_model = [{"d": np.int64(2), "v": np.asarray([1, 5, 5], dtype=np.int64)}] * n
                else:
                    aux2 = {"d": jnp.asarray([(3 * i + 2) % 5 for i in range(n)], dtype=jnp.int64), "v": jnp.asarray([[(i + 4) % 5, 7, 7] for i in range(n)], dtype=jnp.int64).reshape(n, 3)}
                    aux2_model = [{"d": np.int64((3 * i + 2) % 5), "v": np.asarray([(i + 4) % 5, 7, 7], dtype=np.int64)} for i in range(n)]
            else:
                aux2, aux2_model = None, None
            model2 = loops.rollout_model(step_np, np_tree(u1), n, include_init=include_init, auxs=aux2_model)
            try:
                trj2 = ro(u1, aux2) if takes_aux else ro(u1)
                last2 = rp(u1, aux2) if takes_aux else rp(u1)
                tap.flush(); tap2.flush()
                ok2 = all(np.array_equal(np.asarray(a)[i], b) for i in range(len(model2)) for a, b in zip(jtu.tree_leaves(trj2), jtu.tree_leaves(model2[i])))
                ok2 &= all(np.array_equal(np.asarray(a), b) for a, b in zip(jtu.tree_leaves(last2), jtu.tree_leaves(model2[-1])))
                bus.judge("rollout_entries", 0.0 if ok2 else 1.0, 0.5, sig + ("second call of the same object",), witness=dict(info, what="second call with another state/aux differs from the naive loop"), msg="" if ok2 else "second call of the same rollout/repeat object")
            except Exception as e:  # noqa: BLE001
                bus.flag("rollout_entries", f"second call raised {type(e).__name__}: {str(e)[:100]}", sig + ("second call of the same object",), witness=dict(info, exc=type(e).__name__))
        # ---- executions: exactly n, chained, aux in order
        nleaf = len(jtu.tree_leaves(u0))
        for which, lg in (("rollout", log), ("repeat", log2)):
            lg = [r for r in lg if r["traced"]]
            ok = len(lg) == n
            msg = f"{len(lg)} executions, expected {n}"
            if ok and n:
                prev = jtu.tree_leaves(np_tree(u0))
                for i, r in enumerate(lg):
                    ins, outs = r["inputs"][:nleaf], r["outputs"]
                    if not all(np.array_equal(a, b) for a, b in zip(ins, prev)):
                        ok, msg = False, f"call {i} did not receive the output of call {i - 1}"
                        break
                    if takes_aux:
                        got_d, got_v = int(r["inputs"][nleaf]), np.asarray(r["inputs"][nleaf + 1])
                        if got_d != int(aux_model[i]["d"]) or not np.array_equal(got_v, aux_model[i]["v"]):
                            ok, msg = False, f"call {i} consumed aux d={got_d} v={got_v.tolist()}, expected d={int(aux_model[i]['d'])} v={aux_model[i]['v'].tolist()}"
                            break
                    prev = outs
            bus.judge("executions", 0.0 if ok else 1.0, 0.5, sig + (which,), traced=True, sample=dict(info, program=which, executions=len(lg)),
                      witness=dict(info, program=which, problem=msg), nontrivial=n >= 1, msg="" if ok else msg)
        # ---- entries
        want_len = n + (1 if include_init else 0)
        leaves = jtu.tree_leaves(np_tree(trj))
        ok = all(l.shape[0] == want_len for l in leaves)
        msg = "length"
        if ok:
            for i in range(want_len):
                got_i = [l[i] for l in leaves]
                ref_i = jtu.tree_leaves(model[i])
                if not all(np.array_equal(a, b) for a, b in zip(got_i, ref_i)):
                    ok, msg = False, f"entry {i} differs from the {i + (0 if include_init else 1)}-fold application"
                    break
        bus.judge("rollout_entries", 0.0 if ok else 1.0, 0.5, sig, sample=info, witness=dict(info, problem=msg, got=[l.tolist() for l in leaves][:2]), nontrivial=n >= 1, msg="" if ok else msg)
        # ---- repeat == last entry (or the initial state for n = 0)
        ref_last = model[-1] if n > 0 else np_tree(u0)
        ok = all(np.array_equal(a, b) for a, b in zip(jtu.tree_leaves(np_tree(last)), jtu.tree_leaves(ref_last)))
        bus.judge("repeat_last", 0.0 if ok else 1.0, 0.5, sig, sample=info, witness=dict(info, got=[x.tolist() for x in jtu.tree_leaves(np_tree(last))]), nontrivial=n >= 1)
        # ---- structure and dtypes
        ok = jtu.tree_structure(trj) == jtu.tree_structure(u0) and jtu.tree_structure(last) == jtu.tree_structure(u0)
        ok &= all(a.dtype == b.dtype and a.shape[1:] == b.shape for a, b in zip(jtu.tree_leaves(trj), jtu.tree_leaves(u0)))
        ok &= all(a.dtype == b.dtype and a.shape == b.shape for a, b in zip(jtu.tree_leaves(last), jtu.tree_leaves(u0)))
        bus.judge("pytree_structure", 0.0 if ok else 1.0, 0.5, sig, sample=info, witness=info, nontrivial=n >= 1)


def run_windows(case, bus, ex):
    import jax.numpy as jnp, jax.tree_util as jtu
    T = case["T"]
    trj = {"a": jnp.arange(T * 6).reshape(T, 2, 3), "b": (jnp.arange(T, dtype=jnp.int64) * 100,)}
    leaves = [np.asarray(x) for x in jtu.tree_leaves(trj)]
    for w in range(1, T + 1):
        got = ex.stack_sub_trajectories(trj, w)
        gl = [np.asarray(x) for x in jtu.tree_leaves(got)]
        ok = jtu.tree_structure(got) == jtu.tree_structure(trj)
        for g, l in zip(gl, leaves):
            ref = np.stack(loops.windows_model(list(l), w))
            ok &= g.shape == ref.shape and np.array_equal(g, ref)
        bus.judge("sub_trajectories", 0.0 if ok else 1.0, 0.5, (T, w), sample=dict(T=T, window=w, windows=T - w + 1), witness=dict(T=T, window=w, shapes=[list(g.shape) for g in gl]))
    for bad, label in ((T + 1, "too long"),):
        try:
            ex.stack_sub_trajectories(trj, bad)
            bus.flag("sub_trajectories", f"window {bad} > T={T} accepted", (T, label), witness=dict(T=T, window=bad))
        except ValueError:
            bus.ok("sub_trajectories", (T, label))
        except Exception as e:  # noqa: BLE001
            bus.flag("sub_trajectories", f"window > T raised {type(e).__name__}, not ValueError", (T, label), witness=dict(T=T, window=bad))
    if T >= 2:
        try:
            ex.stack_sub_trajectories({"a": jnp.zeros((T, 2)), "b": jnp.zeros((T - 1, 2))}, 1)
            bus.flag("sub_trajectories", "mismatching leading axes accepted", (T, "mismatch"), witness=dict(T=T))
        except ValueError:
            bus.ok("sub_trajectories", (T, "mismatch"))


def run_repeated(case, bus, ex):
    import jax.numpy as jnp
    from rv.props.c08 import has_odd_linear
    rng = env.rng_for(*case["rs"])
    name, n = case["cls"], case["n"]
    spec = zoo.SPECS[name]
    for D in spec["dims"][:2]:
        for N in ({1: [11, 12], 2: [6, 7], 3: [5]}[D]):
            it = zoo.make_intent(rng, name, D, N, variant=int(rng.integers(0, spec["nvar"])), order=(None if spec["linear"] else int(rng.integers(1, 5))))
            st = zoo.build(ex, it)
            rs = ex.RepeatedStepper(st, n)
            C = zoo.channels(it)
            # precondition exactly as the property states it: Nyquist-free states on even N when the inner stepper has odd-order linear terms.
            # (Mixed second derivatives k_i k_j of a full diffusivity matrix break the Hermitian symmetry of the Nyquist planes in the same way but are
            #  NOT covered by that exception: they are judged on arbitrary states and reported - known finding F10.)
            mixed = any(isinstance(val, list) and val and isinstance(val[0], list) for val in it["kw"].values())
            kind = "nyqfree" if (N % 2 == 0 and has_odd_linear(it)) else "white"
            u = G.random_state(rng, kind, C, D, N, amp=0.4)
            v = jnp.asarray(u)
            for _ in range(n):
                v = st(v)
            got = np.asarray(rs(jnp.asarray(u)))
            S = float(np.max(np.abs(u)) + np.max(np.abs(np.asarray(v))))
            sig = (name, D, N % 2, n, kind)
            info = dict(intent=it, num_sub_steps=n, state=kind, mixed_second_derivatives=mixed, N_even=(N % 2 == 0))
            dt_ok = abs(float(rs.dt) - n * float(st.dt)) <= 1e-14 * max(1.0, n * float(st.dt))
            bus.judge("repeated_stepper", max(float(np.max(np.abs(got - np.asarray(v)))) / S, 0.0 if dt_ok else 1.0), 1e-11 * max(1, n), sig, sample=info,
                      witness=dict(info, diff=float(np.max(np.abs(got - np.asarray(v)))), dt=float(rs.dt), expected_dt=n * float(st.dt)), nontrivial=n >= 1)
            # nested wrappers: a repeated stepper is itself an inner stepper (effective dt multiplies, states equal the flat loop), also under ForcedStepper
            if n in (2, 3) and not (mixed and N % 2 == 0):
                nested = ex.RepeatedStepper(rs, 2)
                w2 = jnp.asarray(u)
                for _ in range(2 * n):
                    w2 = st(w2)
                gotn = np.asarray(nested(jnp.asarray(u)))
                dtn_ok = abs(float(nested.dt) - 2 * n * float(st.dt)) <= 1e-14 * max(1.0, 2 * n * float(st.dt))
                bus.judge("repeated_stepper", max(float(np.max(np.abs(gotn - np.asarray(w2)))) / S, 0.0 if dtn_ok else 1.0), 1e-11 * 2 * n, sig + ("nested",),
                          witness=dict(info, nested=True, dt=float(nested.dt), expected_dt=2 * n * float(st.dt)))
                f = jnp.asarray(G.random_state(rng, kind, C, D, N, amp=0.3))
                gotf = np.asarray(ex.ForcedStepper(nested)(jnp.asarray(u), f))
                w3 = jnp.asarray(u) + 2 * n * float(st.dt) * f
                for _ in range(2 * n):
                    w3 = st(w3)
                Sf = float(np.max(np.abs(np.asarray(w3)))) + S
                bus.judge("repeated_stepper", float(np.max(np.abs(gotf - np.asarray(w3)))) / Sf, 1e-11 * 2 * n, sig + ("forced(nested)",), witness=dict(info, nested=True, forced=True))
            # shape validation of the wrapper
            bad = jnp.zeros((C + 1,) + (N,) * D)
            try:
                rs(bad)
                bus.flag("repeated_stepper", "malformed state accepted", sig + ("shape",), witness=info)
            except ValueError:
                bus.ok("repeated_stepper", sig + ("shape",), nontrivial=False)


def run_repeated_mixed(case, bus, ex):
    """Fixed configuration that exhibits known finding F10 on every run (so a change of its status is noticed): full-matrix diffusion, even N, Nyquist content."""
    import jax.numpy as jnp
    rng = env.rng_for(*case["rs"])
    for N in (6, 7):
        it = dict(cls="stepper.Diffusion", D=2, N=N, L=1.0, dt=0.1, kw=dict(diffusivity=[[0.02, 0.015], [0.015, 0.03]]))
        st = zoo.build(ex, it)
        n = 5
        u = G.random_state(rng, "white", 1, 2, N, amp=0.4)
        v = jnp.asarray(u)
        for _ in range(n):
            v = st(v)
        got = np.asarray(ex.RepeatedStepper(st, n)(jnp.asarray(u)))
        S = float(np.max(np.abs(u)))
        info = dict(intent=it, num_sub_steps=n, state="white", mixed_second_derivatives=True, N_even=(N % 2 == 0))
        bus.judge("repeated_stepper", float(np.max(np.abs(got - np.asarray(v)))) / S, 1e-11 * n, ("stepper.Diffusion", 2, N % 2, n, "white", "full matrix"), sample=info, witness=dict(info, diff=float(np.max(np.abs(got - np.asarray(v))))))


def run_forced_batch(case, bus, ex, rng):
    """rollout(vmap(ForcedStepper), constant aux with a batch axis) and multi-channel forcing: each member sees only its own forcing, at every step."""
    import jax, jax.numpy as jnp
    for D, name in ((1, "stepper.Burgers"), (2, "stepper.Burgers")):
        N = {1: 12, 2: 6}[D]
        it = zoo.make_intent(rng, name, D, N, variant=0, order=2)
        st = zoo.build(ex, it)
        fs = ex.ForcedStepper(st)
        C, B, n = zoo.channels(it), 3, 4
        U = np.stack([G.random_state(rng, "white", C, D, N, amp=0.3) for _ in range(B)])
        F = np.stack([G.random_state(rng, "white", C, D, N, amp=0.5) for _ in range(B)])
        ref = []
        for b in range(B):
            v, tr = jnp.asarray(U[b]), []
            for _ in range(n):
                v = st(v + it["dt"] * jnp.asarray(F[b]))
                tr.append(np.asarray(v))
            ref.append(np.stack(tr))
        ref = np.stack(ref)                                  # (B, n, ...)
        a = np.swapaxes(np.asarray(ex.rollout(jax.vmap(fs), n, takes_aux=True, constant_aux=True)(jnp.asarray(U), jnp.asarray(F))), 0, 1)
        b_ = np.asarray(jax.vmap(ex.rollout(fs, n, takes_aux=True, constant_aux=True))(jnp.asarray(U), jnp.asarray(F)))
        c_ = np.asarray(ex.repeat(jax.vmap(fs), n, takes_aux=True, constant_aux=True)(jnp.asarray(U), jnp.asarray(F)))
        S = float(np.max(np.abs(ref))) + 1e-300
        for label, got, r in (("rollout(vmap(forced))", a, ref), ("vmap(rollout(forced))", b_, ref), ("repeat(vmap(forced))", c_, ref[:, -1])):
            ok = got.shape == r.shape
            bus.judge("forced_in_rollout", float(np.max(np.abs(got - r))) / S if ok else np.inf, 1e-11, (D, C, label), sample=dict(intent=it, program=label, batch=B, n=n),
                      witness=dict(intent=it, program=label, shapes=[list(got.shape), list(r.shape)]))


def run_forced(case, bus, ex):
    import jax, jax.numpy as jnp
    rng = env.rng_for(*case["rs"])
    run_forced_batch(case, bus, ex, rng)
    it = zoo.make_intent(rng, "stepper.Burgers", 1, 14, order=int(rng.integers(1, 5)))
    st = zoo.build(ex, it)
    fs = ex.ForcedStepper(st)
    n = int(rng.integers(2, 7))
    u = G.random_state(rng, "white", 1, 1, 14, amp=0.4)
    F = np.stack([G.random_state(rng, "white", 1, 1, 14, amp=0.5) for _ in range(n)])
    for constant in (False, True):
        trj = np.asarray(jax.jit(ex.rollout(fs, n, takes_aux=True, constant_aux=constant, include_init=True))(jnp.asarray(u), jnp.asarray(F[0] if constant else F)))
        v = jnp.asarray(u)
        worst = 0.0
        for i in range(n):
            v = st(v + it["dt"] * jnp.asarray(F[0] if constant else F[i]))
            worst = max(worst, float(np.max(np.abs(trj[i + 1] - np.asarray(v)))))
        ok0 = np.array_equal(trj[0], u)
        bus.judge("forced_in_rollout", worst + (0 if ok0 else 1), 1e-11, (n, constant), sample=dict(intent=it, n=n, constant_aux=constant), witness=dict(intent=it, n=n, constant_aux=constant, diff=worst))


def run_icset(case, bus, ex):
    import jax, jax.numpy as jnp
    D, spec = case["D"], case["spec"]
    gen = iczoo.build(ex, D, spec)
    N = {1: 16, 2: 8, 3: 5}[D]
    key = jax.random.PRNGKey(int(case["rs"][2]) + 11)
    S = 3
    name = spec["name"] + ("(" + ",".join(s["name"] for s in (spec["inner"] if isinstance(spec["inner"], list) else [spec["inner"]])) + ")" if "inner" in spec else "")
    sig = (name, D, tuple(sorted(k for k, v in spec.get("kw", {}).items() if v is True)))
    info = dict(generator=spec, D=D, N=N, samples=S)
    try:
        got = np.asarray(ex.build_ic_set(gen, num_points=N, num_samples=S, key=key))
    except Exception as e:  # noqa: BLE001
        bus.flag("build_ic_set", f"{type(e).__name__}: {str(e)[:140]}", sig, witness=dict(info, exc=type(e).__name__))
        return
    ref, k = [], key
    for _ in range(S):
        k, sub = jax.random.split(k)
        ref.append(np.asarray(gen(N, key=sub)))
    ref = np.stack(ref)
    ok_shape = got.shape == ref.shape
    if ok_shape and not np.all(np.isfinite(ref)):
        # degenerate draw (e.g. unit-std normalisation of a constant field): the set must reproduce the loop entry by entry, NaNs included
        same = np.array_equal(np.isnan(got), np.isnan(ref)) and np.allclose(np.nan_to_num(got), np.nan_to_num(ref), rtol=1e-12, atol=0)
        bus.judge("build_ic_set", 0.0 if same else 1.0, 0.5, sig + ("degenerate draw",), witness=dict(info, note="non-finite entries in the loop reference"), nontrivial=False)
        return
    bus.judge("build_ic_set", float(np.max(np.abs(got - ref))) / (float(np.max(np.abs(ref))) + 1e-300) if ok_shape else np.inf, 1e-12, sig, sample=info,
              witness=dict(info, shapes=[list(got.shape), list(ref.shape)]))


def run_case(case, bus, ex):
    if case["kind"] == "repeated_mixed":
        return run_repeated_mixed(case, bus, ex)
    return {"book": run_book, "windows": run_windows, "repeated": run_repeated, "forced": run_forced, "icset": run_icset}[case["kind"]](case, bus, ex)


def classify(v):
    w = v.get("witness") or {}
    if v["monitor"] == "repeated_stepper" and w.get("mixed_second_derivatives") and w.get("N_even") and w.get("state") == "white":
        return "F10-repeated-stepper-mixed-derivative-nyquist"
    g = (w.get("generator") or {})
    if v["monitor"] == "build_ic_set" and g.get("name") == "RandomSineWaves1d" and w.get("exc") in ("TracerBoolConversionError", "ConcretizationTypeError"):
        return "F8-build-ic-set-sine-waves-tracer-bool"
    return None
