"""C07  Steppers are differentiable with correct derivatives.

Monitors (float64): jvp_state / jvp_param (forward mode vs 4th-order Richardson central differences with a self-estimated FD
error; targets: state, dt, every float / float-tuple / vector / matrix PDE coefficient), adjoint (<vjp(c),t> == <c,jvp(t)>),
finite (jacfwd / grad outputs finite where the primal is finite), linear_jacobian (J t == st(t) for linear steppers), and the
same through rollout and RepeatedStepper.
"""
import numpy as np
from rv import env, zoo
from rv.refmodel import grid as G
from rv.props.c06 import float_params, make_states

PROP = "C07"
RULE = ("cases = every exported stepper class x D x order; per case one random tangent per differentiable argument; distinct = (monitor, class, D, "
        "argument name / program); non-trivial = the finite-difference derivative is above 1e-9 of the scale (a vanishing derivative is counted "
        "trivial, still judged)")
REQUIRED = {"jvp_state": {"quick": 80, "thorough": 300}, "jvp_param": {"quick": 200, "thorough": 700}, "adjoint": {"quick": 80, "thorough": 300},
            "finite": {"quick": 150, "thorough": 500}, "linear_jacobian": {"quick": 15, "thorough": 25}, "through_rollout": {"quick": 60, "thorough": 200}}
ASSUMPTIONS = ["domain_extent is not among the arguments the property lists (d/dL of Wave is NaN: recorded as an observation, not judged)",
               "a case whose two Richardson estimates disagree by more than 1e-4 of the scale is skipped as FD-unreliable, not judged"]
TIMEOUT = {"quick": 2400, "thorough": 7200}


def cases(tier, seed):
    out = []
    for name, spec in zoo.SPECS.items():
        for D in spec["dims"]:
            if tier == "quick" and D == 3 and spec["dims"] != (3,) and env.crc(name) % 5:
                continue            # quick tier: 3D for the 3D-only classes and a fifth of the others
            orders = [None] if spec["linear"] else ([[2, 4, 1, 3][(env.crc(name) + D) % 4]] if tier == "quick" else [1, 2, 3, 4])
            if tier == "thorough" and not spec["linear"]:
                orders = [0] + orders
            for o in orders:
                N = {1: 9, 2: 6, 3: 5}[D] if (o or 0) % 2 == 0 else {1: 10, 2: 5, 3: 4}[D]
                N = zoo.nontrivial_N(name, N)
                if D == spec["dims"][0] and (o == orders[0]) and not spec["linear"] and any(k in zoo.TUPLE_ARGS for k in zoo.SPECS[name]["gen"](__import__("numpy").random.default_rng(0), D, 0)):
                    # boundary values: the leading entry of every coefficient tuple exactly 0.0 (e.g. no drag / no reaction term), default order 2
                    out.append(dict(kind="ad", cls=name, D=D, N=N, order=2, lite=(tier == "quick"), zeros=True, rs=[seed, env.crc(name), D, 2, 2], cost={1: 1, 2: 2, 3: 6}[D]))
                if D == spec["dims"][0] and (o == orders[0]):
                    out.append(dict(kind="ad", cls=name, D=D, N=N, order=o, lite=(tier == "quick"), defaults=True, rs=[seed, env.crc(name), D, o or 0, 1], cost={1: 1, 2: 2, 3: 6}[D]))
                out.append(dict(kind="ad", cls=name, D=D, N=N, order=o, lite=(tier == "quick"), rs=[seed, env.crc(name), D, o or 0], cost={1: 1, 2: 2, 3: 6}[D]))
    return out


def richardson(f, x0, t, h):
    """4th-order central difference of f along t at x0 with step h."""
    d1 = (f(x0 + h * t) - f(x0 - h * t)) / (2 * h)
    d2 = (f(x0 + 2 * h * t) - f(x0 - 2 * h * t)) / (4 * h)
    return (4 * d1 - d2) / 3


def fd_with_estimate(f, x0, t, h):
    """Richardson-extrapolated central difference and a (conservative) estimate of its own error:
    |D_R - D(h)| bounds the h^2 term that the extrapolation removes, so it over-estimates the error of D_R."""
    d1 = (f(x0 + h * t) - f(x0 - h * t)) / (2 * h)
    d2 = (f(x0 + 2 * h * t) - f(x0 - 2 * h * t)) / (4 * h)
    a = (4 * d1 - d2) / 3
    return a, float(np.max(np.abs(a - d1)))


def default_intent(ex, name, D, N, rng):
    """Intent with every float / float-tuple keyword argument at its documented DEFAULT value (zeros included)."""
    import inspect
    spec = zoo.SPECS[name]
    sig = inspect.signature(zoo.get_class(ex, name).__init__)
    kw = {}
    for pname, par in sig.parameters.items():
        d = par.default
        if pname in ("self", "num_spatial_dims", "domain_extent", "num_points", "dt", "order", "num_circle_points", "circle_radius", "dealiasing_fraction") or d is inspect.Parameter.empty:
            continue
        if isinstance(d, bool) or isinstance(d, int):
            continue
        if isinstance(d, float):
            kw[pname] = float(d)
        elif isinstance(d, tuple) and d and all(isinstance(x, float) for x in d):
            kw[pname] = [float(x) for x in d]
    it = dict(cls=name, D=D, N=N, kw=kw)
    if spec["sig"] == "phys":
        it["L"], it["dt"] = float(rng.choice([1.0, 2 * np.pi])), float(10 ** rng.uniform(-3, -2))
    return it


def run_case(case, bus, ex):
    import jax, jax.numpy as jnp, equinox as eqx
    rng = env.rng_for(*case["rs"])
    name, D, N, order = case["cls"], case["D"], case["N"], case["order"]
    spec = zoo.SPECS[name]
    if case.get("defaults"):
        it = default_intent(ex, name, D, N, rng)
        if not spec["linear"] and order is not None:
            it["kw"]["order"] = order
    else:
        it = zoo.make_intent(rng, name, D, N, variant=int(rng.integers(0, spec["nvar"])), order=order)
        if case.get("zeros"):
            for k_, v_ in it["kw"].items():
                if k_ in zoo.TUPLE_ARGS and k_.startswith(("linear", "normalized_linear")) and isinstance(v_, list) and len(v_) > 2:
                    v_[0] = 0.0
    if name in zoo.ARRAY_CLASSES:
        for k in list(it["kw"]):
            if k in zoo.ARRAY_ARGS and isinstance(it["kw"][k], float):   # documented traced form is the (D,) array (scalar form is a Python float)
                it["kw"][k] = [it["kw"][k] * (1 + 0.1 * d) for d in range(D)]
    st = zoo.build(ex, it)
    u = make_states(rng, it, 2)[1]             # smooth-ish O(0.3) state
    uj = jnp.asarray(u)
    out0 = np.asarray(st(uj))
    if not np.all(np.isfinite(out0)):
        bus.skip("jvp_state", "primal not finite")
        return
    S = float(np.max(np.abs(u)) + np.max(np.abs(out0)))
    sig = (name, D, order)
    info = dict(intent=it)
    t = rng.normal(size=u.shape)
    t /= np.max(np.abs(t))
    tj = jnp.asarray(t)

    # ---- state tangent
    f_np = lambda x: np.asarray(st(jnp.asarray(x)))
    _, jv = jax.jvp(lambda x: st(x), (uj,), (tj,))
    jv = np.asarray(jv)
    fd, est = fd_with_estimate(f_np, u, t, 1e-3)
    fin = bool(np.all(np.isfinite(jv)))
    bus.judge("finite", 0.0 if fin else 1.0, 0.5, sig + ("jvp_state",), witness=dict(info, what="jvp wrt state"))
    if est > 1e-4 * S:
        bus.skip("jvp_state", "finite differences unreliable")
    elif fin:
        bus.judge("jvp_state", float(np.max(np.abs(jv - fd))), 1e-7 * S + 3 * est, sig, sample=dict(info, fd_est=est), witness=dict(info, fd_est=est, err=float(np.max(np.abs(jv - fd)))),
                  nontrivial=float(np.max(np.abs(fd))) > 1e-9 * S)
    # ---- adjoint identity
    c = rng.normal(size=u.shape)
    _, vjp_fn = jax.vjp(lambda x: st(x), uj)
    (ct,) = vjp_fn(jnp.asarray(c))
    ct = np.asarray(ct)
    lhs, rhs = float(np.sum(ct * t)), float(np.sum(c * jv))
    bus.judge("finite", 0.0 if np.all(np.isfinite(ct)) else 1.0, 0.5, sig + ("vjp_state",), witness=dict(info, what="vjp wrt state"))
    bus.judge("adjoint", abs(lhs - rhs), 1e-11 * float(np.sum(np.abs(c)) * (np.max(np.abs(jv)) + 1e-300)) + 1e-300, sig, sample=dict(info, lhs=lhs, rhs=rhs), witness=dict(info, lhs=lhs, rhs=rhs))
    # ---- linear steppers: the Jacobian is the map itself
    if spec["linear"]:
        lin = np.asarray(st(tj))
        bus.judge("linear_jacobian", float(np.max(np.abs(jv - lin))), 1e-12 * (np.max(np.abs(lin)) + 1.0), sig, witness=info, sample=info)
    # ---- small full Jacobian: finite
    if u.size <= 64:
        J = np.asarray(jax.jacfwd(lambda x: st(x))(uj))
        Jr = np.asarray(jax.jacrev(lambda x: st(x))(uj))
        bus.judge("finite", 0.0 if (np.all(np.isfinite(J)) and np.all(np.isfinite(Jr))) else 1.0, 0.5, sig + ("jacfwd/jacrev",), witness=dict(info, what="jacfwd/jacrev"))
        bus.judge("adjoint", float(np.max(np.abs(J - Jr))), 1e-11 * (float(np.max(np.abs(J))) + 1e-300), sig + ("jacfwd==jacrev",), witness=dict(info, what="jacfwd vs jacrev"))

    # ---- parameters (dt and PDE coefficients): derivative through the constructor
    plist = float_params(it)
    if case.get("lite") and len(plist) > 4:
        plist = [plist[i] for i in sorted(rng.choice(len(plist), size=4, replace=False))]
    for pname, form in plist:
        base = np.asarray(it["dt"] if pname == "dt" else it["kw"][pname], float)
        tp = rng.uniform(0.5, 1.0, size=base.shape) * rng.choice([-1.0, 1.0], size=base.shape) if base.ndim else np.asarray(1.0)
        if form == "matrix":
            tp = (tp + tp.T) / 2

        def make(val, pname=pname, form=form):
            kw = zoo.convert_kw(name, {k: v for k, v in it["kw"].items() if k != pname})
            cls = zoo.get_class(ex, name)
            if pname != "dt":
                kw[pname] = tuple(val[i] for i in range(val.shape[0])) if form == "tuple" else val
            if spec["sig"] == "phys":
                return cls(D, it["L"], N, (val if pname == "dt" else it["dt"]), **kw)
            return cls(D, N, **kw)

        g = lambda val: make(val)(uj)
        psig = sig + (pname, form, "defaults" if case.get("defaults") else ("zeros" if case.get("zeros") else "random"))
        pinfo = dict(info, parameter=pname, form=form)
        try:
            primal, dv = jax.jvp(g, (jnp.asarray(base),), (jnp.asarray(tp),))
        except Exception as e:  # noqa: BLE001
            bus.flag("jvp_param", f"{type(e).__name__}: {str(e)[:120]}", psig, witness=dict(pinfo, exc=type(e).__name__))
            continue
        dv = np.asarray(dv)
        fin = bool(np.all(np.isfinite(dv)))
        bus.judge("finite", 0.0 if fin else 1.0, 0.5, psig + ("jvp",), witness=dict(pinfo, what="jvp wrt parameter"))
        pscale = float(np.max(np.abs(base))) if np.max(np.abs(base)) > 0 else 1.0
        psig_zero = bool(np.any(np.asarray(base) == 0.0))
        h = 2e-4 * pscale
        g_np = lambda val: np.asarray(make(jnp.asarray(val) if np.ndim(val) else float(val))(uj))
        fd, est = fd_with_estimate(g_np, base, tp, h)
        Sp = S / pscale
        if est > 1e-4 * Sp or not np.all(np.isfinite(fd)):
            bus.skip("jvp_param", "finite differences unreliable")
        elif fin:
            bus.judge("jvp_param", float(np.max(np.abs(dv - fd))), 1e-6 * Sp + 3 * est, psig, sample=dict(pinfo, fd_est=est, dmax=float(np.max(np.abs(fd))), has_zero_entry=psig_zero),
                      witness=dict(pinfo, fd_est=est, err=float(np.max(np.abs(dv - fd))), dmax=float(np.max(np.abs(fd)))), nontrivial=float(np.max(np.abs(fd))) > 1e-9 * Sp)
        # reverse mode w.r.t. the parameter: gradient of a scalar loss, must be finite and match <c, jvp>
        try:
            gr = np.asarray(jax.grad(lambda val: jnp.sum(jnp.asarray(c) * g(val)))(jnp.asarray(base)))
            bus.judge("finite", 0.0 if np.all(np.isfinite(gr)) else 1.0, 0.5, psig + ("grad",), witness=dict(pinfo, what="grad wrt parameter"))
            if fin:
                lhs, rhs = float(np.sum(gr * tp)), float(np.sum(c * dv))
                bus.judge("adjoint", abs(lhs - rhs), 1e-10 * float(np.sum(np.abs(c)) * (np.max(np.abs(dv)) + 1e-300)) + 1e-300, psig, witness=dict(pinfo, lhs=lhs, rhs=rhs))
        except Exception as e:  # noqa: BLE001
            bus.flag("finite", f"grad raised {type(e).__name__}: {str(e)[:120]}", psig + ("grad",), witness=dict(pinfo, exc=type(e).__name__))

    # ---- through rollout and RepeatedStepper
    n = 3
    progs = (("rollout", ex.rollout(st, n)), ("repeat", ex.repeat(st, n)), ("RepeatedStepper", ex.RepeatedStepper(st, n)), ("jit(rollout)", jax.jit(lambda x: ex.rollout(st, n)(x))))
    if case.get("lite"):
        progs = progs[:1] + progs[2:3]
    for label, prog in progs:
        p_np = lambda x: np.asarray(prog(jnp.asarray(x)))
        o = p_np(u)
        if not np.all(np.isfinite(o)):
            bus.skip("through_rollout", "primal not finite")
            continue
        S2 = float(np.max(np.abs(u)) + np.max(np.abs(o)))
        _, jv2 = jax.jvp(lambda x: prog(x), (uj,), (tj,))
        jv2 = np.asarray(jv2)
        fd, est = fd_with_estimate(p_np, u, t, 1e-3)
        fin = bool(np.all(np.isfinite(jv2)))
        bus.judge("finite", 0.0 if fin else 1.0, 0.5, sig + (label,), witness=dict(info, what=f"jvp through {label}"))
        if est > 1e-4 * S2:
            bus.skip("through_rollout", "finite differences unreliable")
        elif fin:
            bus.judge("through_rollout", float(np.max(np.abs(jv2 - fd))), 1e-7 * S2 + 3 * est, sig + (label,), sample=dict(info, program=label), witness=dict(info, program=label, fd_est=est))
        c2 = rng.normal(size=o.shape)
        _, vf = jax.vjp(lambda x: prog(x), uj)
        (ct2,) = vf(jnp.asarray(c2))
        lhs, rhs = float(np.sum(np.asarray(ct2) * t)), float(np.sum(c2 * jv2))
        bus.judge("adjoint", abs(lhs - rhs), 1e-10 * float(np.sum(np.abs(c2)) * (np.max(np.abs(jv2)) + 1e-300)) + 1e-300, sig + (label,), witness=dict(info, program=label, lhs=lhs, rhs=rhs))
    # ---- flat states (rest state / constant): derivatives must stay finite wherever the step is, and equal finite differences
    for label, uflat in (("zero", np.zeros_like(u)), ("constant", np.ones_like(u) * rng.uniform(0.2, 1.0, size=(u.shape[0],) + (1,) * D))):
        of = np.asarray(st(jnp.asarray(uflat)))
        if not np.all(np.isfinite(of)):
            continue
        _, jvf = jax.jvp(lambda x: st(x), (jnp.asarray(uflat),), (tj,))
        jvf = np.asarray(jvf)
        _, vf = jax.vjp(lambda x: st(x), jnp.asarray(uflat))
        (ctf,) = vf(jnp.asarray(c))
        fin = bool(np.all(np.isfinite(jvf)) and np.all(np.isfinite(np.asarray(ctf))))
        bus.judge("finite", 0.0 if fin else 1.0, 0.5, sig + ("flat:" + label,), sample=dict(info, state=label), witness=dict(info, what="jvp/vjp at a flat state", state=label))
        if fin:
            fdf, estf = fd_with_estimate(f_np, uflat, t, 1e-3)
            Sf = float(np.max(np.abs(uflat)) + np.max(np.abs(of)) + np.max(np.abs(t)))
            if estf <= 1e-4 * Sf:
                bus.judge("jvp_state", float(np.max(np.abs(jvf - fdf))), 1e-7 * Sf + 3 * estf, sig + ("flat:" + label,), witness=dict(info, state=label, fd_est=estf))
    if name == "stepper.Wave":
        try:
            dL = jax.jvp(lambda L_: zoo.get_class(ex, name)(D, L_, N, it["dt"], **it["kw"])(uj), (jnp.asarray(it["L"]),), (jnp.asarray(1.0),))[1]
            bus.observe("O2 d/d(domain_extent) of Wave finite?", bool(np.all(np.isfinite(np.asarray(dL)))))
        except Exception as e:  # noqa: BLE001
            bus.observe("O2 d/d(domain_extent) of Wave raised", type(e).__name__)
