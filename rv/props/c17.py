"""C17  Radial spectrum: every mode lands in its documented bin with Parseval weights.

Oracle: explicit per-mode sums over the FULL complex spectrum binned by round(|k|) (rv.refmodel: plain NumPy here).  Monitors:
  single_mode_bin (every stored wavenumber vector, exhaustive per (D,N)), random_state (per-bin sums for white noise, amplitude & power,
  sum & average), parseval (1D: sum = 1/2 mean u^2; D>1: 1/2 mean square of the part inside the Nyquist sphere), channel_independence,
  average_is_sum_over_count.
"""
import numpy as np
from rv import env
from rv.refmodel import grid as G

PROP = "C17"
RULE = ("for each (D,N) EVERY stored wavenumber vector is exercised as a single-mode field with random amplitude and phase (exhaustive over modes), for power/amplitude; random "
        "white-noise states for per-bin sums; distinct = (monitor, D, N, mode class: dc / nyquist / k_last=0 pair / interior / outside-sphere, power?, binning); non-trivial = k != 0")
EXHAUSTIVE = True
REQUIRED = {"single_mode_bin": {"quick": 600, "thorough": 3000}, "random_state": {"quick": 80, "thorough": 250}, "parseval": {"quick": 25, "thorough": 60},
            "channel_independence": {"quick": 15, "thorough": 60}, "average_is_sum_over_count": {"quick": 20, "thorough": 100}}
ASSUMPTIONS = ["no integer wavenumber vector has a half-integer norm, so the open/closed side of a bin edge is unobservable and not asserted", "float64"]
TIMEOUT = {"quick": 2400, "thorough": 7200}
EPS = np.finfo(float).eps


def cases(tier, seed):
    out = []
    Ns = {1: [5, 8, 13], 2: [5, 6, 8, 9], 3: [4, 5, 6]} if tier == "quick" else {1: [3, 4, 7, 16, 33], 2: list(range(3, 15)), 3: list(range(3, 10))}
    for D in (1, 2, 3):
        for N in Ns[D]:
            out.append(dict(kind="modes", D=D, N=N, rs=[seed, D, N], cost=N ** D / 10 + 1))
            out.append(dict(kind="random", D=D, N=N, rs=[seed, D, N, 1], cost=2))
    return out


def ref_spectrum(u, power, binning):
    """(C, N//2+1) from the full complex spectrum."""
    C, N, D = u.shape[0], u.shape[-1], u.ndim - 1
    uh = G.fftn(u, D) / N ** D
    q = 0.5 * np.abs(uh) ** 2 if power else np.abs(uh)
    k = G.kint_full(D, N)
    if D == 1:
        out = np.zeros((C, N // 2 + 1))
        for i in range(N):
            out[:, abs(int(k[0][i]))] += q[:, i]
        return out
    r = np.sqrt((k.astype(float) ** 2).sum(0))
    b = np.floor(r + 0.5).astype(int)
    out = np.zeros((C, N // 2 + 1))
    kr = G.kint_rfft(D, N)
    br = np.floor(np.sqrt((kr.astype(float) ** 2).sum(0)) + 0.5).astype(int)
    for j in range(N // 2 + 1):
        s = q[:, b == j].sum(axis=1)
        if binning == "average":
            cnt = int(np.sum(br == j))           # number of STORED half-spectrum modes in the bin
            s = s / cnt if cnt else np.full(C, np.nan)
        out[:, j] = s
    return out


def mclass(k, N):
    if not any(k):
        return "dc"
    if N % 2 == 0 and any(abs(x) == N // 2 for x in k):
        return "nyquist"
    if np.floor(np.sqrt(sum(x * x for x in k)) + 0.5) > N // 2:
        return "outside-sphere"
    if k[-1] == 0:
        return "k_last=0"
    return "interior"


def run_modes(case, bus, ex):
    import jax, jax.numpy as jnp
    rng = env.rng_for(*case["rs"])
    D, N = case["D"], case["N"]
    kr = G.kint_rfft(D, N)
    Xi = np.indices((N,) * D)
    modes = [tuple(int(kr[(d,) + idx]) for d in range(D)) for idx in np.ndindex(*kr.shape[1:])]
    fields, meta = [], []
    for k in modes:
        a, phi = float(rng.uniform(0.3, 2.0)), float(rng.uniform(0, 2 * np.pi))
        fields.append(a * np.cos(2 * np.pi * sum(k[d] * Xi[d] for d in range(D)) / N + phi)[None])
        meta.append((k, a, phi))
    F = jnp.asarray(np.stack(fields))
    for power in (True, False):
        got = np.asarray(jax.vmap(lambda x: ex.get_spectrum(x, power=power))(F))       # (M, 1, N//2+1)
        bus.tap("get_spectrum", len(modes))
        for i, (k, a, phi) in enumerate(meta):
            u = fields[i]
            r = np.sqrt(sum(x * x for x in k))
            b = int(np.floor(r + 0.5)) if D > 1 else abs(k[0])
            expect = np.zeros(N // 2 + 1)
            selfconj = all((2 * x) % N == 0 for x in k)
            if b <= N // 2:
                if power:
                    expect[b] = 0.5 * float(np.mean(u ** 2))
                else:
                    expect[b] = a * abs(np.cos(phi)) if selfconj else a
            S = a ** 2 if power else a
            err = float(np.max(np.abs(got[i, 0] - expect))) / S
            bus.judge("single_mode_bin", err, 256 * EPS * (1 + np.log2(N ** D)), (D, N, mclass(k, N), power),
                      sample=dict(D=D, N=N, k=list(k), a=a, phi=phi, power=power, bin=b) if i % 37 == 0 else None,
                      witness=dict(D=D, N=N, k=list(k), a=a, phi=phi, power=power, expected_bin=b, got=got[i, 0].tolist(), expected=expect.tolist()), nontrivial=any(k))


def run_random(case, bus, ex):
    import jax.numpy as jnp
    rng = env.rng_for(*case["rs"])
    D, N = case["D"], case["N"]
    C = 3
    for kind in ("white", "checker", "band"):
        u = G.random_state(rng, kind, C, D, N, amp=float(10 ** rng.uniform(-2, 2)))
        S1 = float(np.max(np.abs(u)))
        tol = 256 * EPS * (1 + np.log2(N ** D)) * N ** D
        res = {}
        for power in (True, False):
            for binning in ("sum", "average"):
                got = np.asarray(ex.get_spectrum(jnp.asarray(u), power=power, radial_binning=binning))
                bus.tap("get_spectrum")
                ref = ref_spectrum(u, power, binning if D > 1 else "sum")
                res[(power, binning)] = got
                S = S1 ** 2 if power else S1
                ok_shape = got.shape == ref.shape
                m = ~np.isnan(ref)
                err = float(np.max(np.abs(got[m] - ref[m]))) / S if ok_shape else np.inf
                if ok_shape and D > 1 and binning == "average" and (~m).any():
                    err = max(err, 0.0 if np.all(np.isnan(got[~m])) else 1.0)      # an empty bin has no average
                bus.judge("random_state", err, tol / N ** D * 8, (D, N % 2, kind, power, binning), sample=dict(D=D, N=N, state=kind, power=power, binning=binning),
                          witness=dict(D=D, N=N, state=kind, power=power, binning=binning, got=got[0].tolist(), ref=ref[0].tolist()))
        # Parseval: total power = 1/2 mean square of the part of the state inside the Nyquist sphere (all of it in 1D)
        k = G.kint_full(D, N)
        inside = (np.floor(np.sqrt((k.astype(float) ** 2).sum(0)) + 0.5) <= N // 2) if D > 1 else np.ones((N,), bool)
        uin = np.real(G.ifftn(G.fftn(u, D) * inside, D))
        tot = res[(True, "sum")].sum(axis=1)
        ref = 0.5 * np.mean(uin ** 2, axis=G.axes(D))
        bus.judge("parseval", float(np.max(np.abs(tot - ref))) / S1 ** 2, 256 * EPS * (1 + np.log2(N ** D)), (D, N % 2, kind), sample=dict(D=D, N=N, state=kind, total=tot.tolist(), half_mean_square=ref.tolist()),
                  witness=dict(D=D, N=N, state=kind, total=tot.tolist(), ref=ref.tolist()))
        # channels independent: spectrum of the stack == stack of single-channel spectra; perturbing channel 0 leaves the others bit-identical
        single = np.concatenate([np.asarray(ex.get_spectrum(jnp.asarray(u[c:c + 1]))) for c in range(C)])
        u2 = u.copy()
        u2[0] *= 3.0
        pert = np.asarray(ex.get_spectrum(jnp.asarray(u2)))
        ok = np.allclose(single, res[(True, "sum")], rtol=1e-13, atol=1e-13 * S1 ** 2) and np.array_equal(pert[1:], res[(True, "sum")][1:])
        bus.judge("channel_independence", 0.0 if ok else 1.0, 0.5, (D, N % 2, kind), witness=dict(D=D, N=N, state=kind))
        if D > 1:
            kr = G.kint_rfft(D, N)
            br = np.floor(np.sqrt((kr.astype(float) ** 2).sum(0)) + 0.5).astype(int)
            cnt = np.array([np.sum(br == j) for j in range(N // 2 + 1)], float)
            for power in (True, False):
                s, a = res[(power, "sum")], res[(power, "average")]
                m = cnt > 0
                S = S1 ** 2 if power else S1
                bus.judge("average_is_sum_over_count", float(np.max(np.abs(a[:, m] - s[:, m] / cnt[m]))) / S, 256 * EPS * 8, (D, N % 2, kind, power),
                          sample=dict(D=D, N=N, counts=cnt.tolist()), witness=dict(D=D, N=N, state=kind, power=power, counts=cnt.tolist()))


def run_case(case, bus, ex):
    return {"modes": run_modes, "random": run_random}[case["kind"]](case, bus, ex)
