"""C06  Results are invariant under jit, vmap and scan composition.

Metamorphic monitors on every exported stepper class (+ RepeatedStepper / ForcedStepper wrappers):
  jit_equals_eager       eager vs eqx.filter_jit vs jax.jit(lambda u: st(u))
  vmap_equals_loop       jax.vmap(st)(U) vs the Python loop
  non_interference       perturbing lane j leaves every other lane bit-identical
  param_batch            filter_vmap(make)(params) + batched step vs a Python list of eagerly built steppers, for every float
                         constructor parameter in its documented form
  rollout_nesting        vmap(rollout(st,n)) == swapaxes(rollout(vmap(st),n)); jit(rollout) == rollout; repeat == rollout[-1]
  traced_executions      a debug-callback tap inside the compiled program: every lane / scan iteration ran the stepper exactly
                         once, on the values the eager run used
"""
import numpy as np
from rv import env, zoo, taps
from rv.refmodel import grid as G

PROP = "C06"
RULE = ("cases = every exported stepper class x supported D; per case all program shapes are built and compared with the eager one-at-a-time "
        "run; distinct = (monitor, class, D, program shape / parameter name); non-trivial = batch of >= 3 distinct states, >= 1 traced "
        "execution observed by the tap")
REQUIRED = {"jit_equals_eager": {"quick": 100, "thorough": 300}, "vmap_equals_loop": {"quick": 60, "thorough": 200}, "non_interference": {"quick": 60, "thorough": 200},
            "param_batch": {"quick": 150, "thorough": 400}, "rollout_nesting": {"quick": 150, "thorough": 500}, "traced_executions": {"quick": 100, "thorough": 300}}
REQUIRED_TAPS = {"step:traced": 300}
ASSUMPTIONS = ["union-typed parameters (velocity, diffusivity, dispersivity) are batched in their documented array form (D,), not as 0-d tracers",
               "float64 session; compiled vs eager agree to 1e-10 of the state scale, lanes are compared bit-exactly for non-interference"]
TIMEOUT = {"quick": 2400, "thorough": 7200}
TOL = 1e-10


def cases(tier, seed):
    out = []
    for name, spec in zoo.SPECS.items():
        for D in spec["dims"]:
            if tier == "quick" and D == 3 and spec["dims"] != (3,) and env.crc(name) % 4:
                continue            # quick tier: 3D for the 3D-only classes and a quarter of the others (all of them in the thorough tier)
            reps = 1 if tier == "quick" else 3
            for rep in range(reps):
                N = zoo.nontrivial_N(name, {1: 10 + rep, 2: 6 + rep, 3: 5 + (rep % 2)}[D])
                out.append(dict(kind="programs", cls=name, D=D, N=N, v=rep, rs=[seed, env.crc(name), D, rep], cost={1: 1, 2: 2, 3: 5}[D]))
                out.append(dict(kind="params", cls=name, D=D, N=N, v=rep, rs=[seed, env.crc(name), D, rep, 7], cost={1: 1, 2: 2, 3: 5}[D]))
    for w in ("repeated", "forced"):
        out.append(dict(kind="wrapper", w=w, rs=[seed, env.crc(w)], cost=2))
    for x64 in (True, False):      # the documented performance-hints programs (docs/examples/performance_hints), x64 and default float32 sessions
        out.append(dict(kind="hints", x64=x64, rs=[seed, 77], cost=6))
    return out


def scale_of(*arrs):
    return max(1e-300, max(float(np.max(np.abs(np.asarray(a)))) for a in arrs))


def make_states(rng, it, B):
    C = zoo.channels(it)
    return np.stack([G.random_state(rng, k, C, it["D"], it["N"], amp=0.3) for k in (["white", "smooth", "band", "nyqfree", "checker"] * 3)[:B]])


def run_programs(case, bus, ex):
    import jax, jax.numpy as jnp, equinox as eqx
    rng = env.rng_for(*case["rs"])
    name, D, N = case["cls"], case["D"], case["N"]
    it = zoo.make_intent(rng, name, D, N, variant=case["v"], order=(None if zoo.SPECS[name]["linear"] else int(rng.integers(1, 5))))
    _opt = env.rng_for(*case["rs"], "options")        # documented non-default options (own stream: the state draws stay as they were)
    zoo.vary_dealiasing(_opt, it, 0.4); zoo.vary_contour(_opt, it, 0.3)
    st = zoo.build(ex, it)
    B, n = 4, 3
    U = make_states(rng, it, B)
    Uj = jnp.asarray(U)
    eager = np.stack([np.asarray(st(Uj[i])) for i in range(B)])
    S = scale_of(U, eager)
    sig = (name, D)
    info = dict(intent=it)
    # (1) jit
    for label, f in (("filter_jit", eqx.filter_jit(st)), ("jit_lambda", jax.jit(lambda u: st(u))), ("filter_jit_method", eqx.filter_jit(lambda s, u: s(u)))):
        got = np.asarray(f(Uj[0])) if label != "filter_jit_method" else np.asarray(f(st, Uj[0]))
        bus.judge("jit_equals_eager", float(np.max(np.abs(got - eager[0]))) / S, TOL, sig + (label,), sample=dict(info, program=label), witness=dict(info, program=label))
    # (2) vmap == loop, also jit(vmap)
    vm = np.asarray(jax.vmap(st)(Uj))
    bus.judge("vmap_equals_loop", float(np.max(np.abs(vm - eager))) / S, TOL, sig + ("vmap",), sample=dict(info, B=B), witness=dict(info, program="vmap"))
    vmj = np.asarray(jax.jit(jax.vmap(lambda u: st(u)))(Uj))
    bus.judge("vmap_equals_loop", float(np.max(np.abs(vmj - eager))) / S, TOL, sig + ("jit_vmap",), witness=dict(info, program="jit(vmap)"))
    # (3) non-interference: perturb one lane, the others must be bit-identical
    j = int(rng.integers(0, B))
    U2 = U.copy()
    U2[j] = U2[j] * 1.5 + 0.1
    vm2 = np.asarray(jax.vmap(st)(jnp.asarray(U2)))
    others = [i for i in range(B) if i != j]
    same = all(np.array_equal(vm[i], vm2[i]) for i in others)
    changed = not np.array_equal(vm[j], vm2[j])
    bus.judge("non_interference", 0.0 if same else 1.0, 0.5, sig, sample=dict(info, perturbed_lane=j, perturbed_lane_changed=changed),
              witness=dict(info, perturbed_lane=j, maxdiff=float(max(np.max(np.abs(vm[i] - vm2[i])) for i in others))))
    # (5) rollout nestings
    ro = ex.rollout(st, n)
    manual = []
    for i in range(B):
        u, tr = Uj[i], []
        for _ in range(n):
            u = st(u)
            tr.append(np.asarray(u))
        manual.append(np.stack(tr))
    manual = np.stack(manual)                     # (B, n, ...)
    S2 = scale_of(U, manual)
    a = np.asarray(jax.vmap(ro)(Uj))              # (B, n, ...)
    b = np.swapaxes(np.asarray(ex.rollout(jax.vmap(st), n)(Uj)), 0, 1)
    c = np.asarray(jax.jit(lambda u: ro(u))(Uj[0]))
    d = np.asarray(ex.repeat(st, n)(Uj[0]))
    e = np.asarray(jax.jit(jax.vmap(ex.rollout(st, n, include_init=True)))(Uj))
    for label, got, ref in (("vmap(rollout)", a, manual), ("rollout(vmap)^T", b, manual), ("jit(rollout)", c, manual[0]), ("repeat", d, manual[0, -1]),
                            ("jit(vmap(rollout+init))", e[:, 1:], manual), ("init-entry", e[:, 0], U)):
        ok_shape = got.shape == ref.shape
        bus.judge("rollout_nesting", float(np.max(np.abs(got - ref))) / S2 if ok_shape else np.inf, TOL * n, sig + (label,), sample=dict(info, program=label, n=n),
                  witness=dict(info, program=label, shapes=[list(got.shape), list(ref.shape)]))
    # (6) taps inside the compiled programs
    tap = taps.CallTap(st, "step", bus)
    jax.jit(jax.vmap(tap))(Uj)
    log = tap.flush()
    ok = len(log) == B and all(r["traced"] for r in log)
    if ok:   # every lane's (input, output) seen exactly once
        used = set()
        for r in log:
            m = [i for i in range(B) if i not in used and np.array_equal(r["inputs"][-1], U[i])]
            if not m:
                ok = False
                break
            used.add(m[0])
            ok &= float(np.max(np.abs(r["outputs"][0] - eager[m[0]]))) / S <= TOL
    bus.judge("traced_executions", 0.0 if ok else 1.0, 0.5, sig + ("jit(vmap)",), traced=True, sample=dict(info, events=len(log)), witness=dict(info, events=len(log), expected=B))
    tap2 = taps.CallTap(st, "step", bus)
    jax.jit(ex.rollout(tap2, n))(Uj[0])
    log = tap2.flush()
    ok = len(log) == n and all(r["traced"] for r in log)
    if ok:
        prev = U[0]
        for i, r in enumerate(log):   # ordered: iteration i consumes the output of i-1
            ok &= float(np.max(np.abs(r["inputs"][-1] - prev))) / S2 <= TOL and float(np.max(np.abs(r["outputs"][0] - manual[0, i]))) / S2 <= TOL * n
            prev = r["outputs"][0]
    bus.judge("traced_executions", 0.0 if ok else 1.0, 0.5, sig + ("jit(rollout)",), traced=True, witness=dict(info, events=len(log), expected=n))


def float_params(it):
    """(name, form) of every float / float-tuple constructor parameter of this intent."""
    out = []
    for k, v in it["kw"].items():
        if isinstance(v, bool) or isinstance(v, int) or k in ("dealiasing_fraction", "circle_radius"):        # configuration, not a batched physical parameter
            continue
        if isinstance(v, float):
            out.append((k, "scalar"))
        elif isinstance(v, list) and v and isinstance(v[0], float):
            out.append((k, "tuple" if k in zoo.TUPLE_ARGS else "vector"))
        elif isinstance(v, list) and v and isinstance(v[0], list):
            out.append((k, "matrix"))
    if "dt" in it:
        out.append(("dt", "scalar"))
    return out


def run_params(case, bus, ex):
    import jax, jax.numpy as jnp, equinox as eqx
    rng = env.rng_for(*case["rs"])
    name, D, N = case["cls"], case["D"], case["N"]
    it = zoo.make_intent(rng, name, D, N, variant=case["v"] + 1, order=(None if zoo.SPECS[name]["linear"] else 2))
    _opt = env.rng_for(*case["rs"], "options")
    zoo.vary_dealiasing(_opt, it, 0.5); zoo.vary_contour(_opt, it, 0.3)
    # give union-typed parameters their documented array form
    if name in zoo.ARRAY_CLASSES:
        for k in list(it["kw"]):
            if k in zoo.ARRAY_ARGS and isinstance(it["kw"][k], float):
                it["kw"][k] = [it["kw"][k] * (1 + 0.1 * d) for d in range(D)]
    u = jnp.asarray(make_states(rng, it, 1)[0])
    B = 3
    facs = np.array([0.8, 1.0, 1.3])
    spec = zoo.SPECS[name]
    for pname, form in float_params(it):
        base = it["dt"] if pname == "dt" else it["kw"][pname]
        vals = np.stack([np.asarray(base, float) * f for f in facs])       # (B,) or (B, m) or (B, D, D)

        def make(val, pname=pname, form=form):
            kw = zoo.convert_kw(name, {k: v for k, v in it["kw"].items() if k != pname})
            cls = zoo.get_class(ex, name)
            if pname != "dt":
                kw[pname] = tuple(val[i] for i in range(val.shape[0])) if form == "tuple" else val
            if spec["sig"] == "phys":
                return cls(D, it["L"], N, (val if pname == "dt" else it["dt"]), **kw)
            return cls(D, N, **kw)

        sig = (name, D, pname, form)
        info = dict(intent=it, parameter=pname, form=form)
        try:
            ens = eqx.filter_vmap(make)(jnp.asarray(vals))
            got = np.asarray(eqx.filter_vmap(lambda s: s(u))(ens))
        except Exception as e:  # noqa: BLE001
            bus.flag("param_batch", f"{type(e).__name__}: {str(e)[:120]}", sig, witness=dict(info, exc=type(e).__name__))
            continue
        ref = np.stack([np.asarray(make(jnp.asarray(vals[i]) if form != "scalar" else float(vals[i]))(u)) for i in range(B)])
        S = scale_of(u, ref)
        lanes_differ = not np.array_equal(ref[0], ref[1])
        bus.judge("param_batch", float(np.max(np.abs(got - ref))) / S if got.shape == ref.shape else np.inf, TOL, sig, sample=info, witness=info, nontrivial=lanes_differ)
        # a batch that contains an EXACT zero of this parameter (boundary value: concrete-zero shortcuts must agree with the traced construction),
        # under the drawn options and, for semi-linear classes, once more under another dealiasing fraction (a shortcut branch must honour the same options)
        if pname != "dt":
            variants = [("", it)]
            if not spec["linear"]:
                cur = it["kw"].get("dealiasing_fraction", 2 / 3)
                alt = 0.5 if abs(cur - 0.5) > 1e-9 and name not in zoo.HALF_FRACTION else 0.8
                variants.append((f"dealiasing_fraction={alt}", dict(it, kw=dict(it["kw"], dealiasing_fraction=alt))))
            for vname, itv in variants:

                def makev(val, pname=pname, form=form, itv=itv):
                    kw = zoo.convert_kw(name, {k: v for k, v in itv["kw"].items() if k != pname})
                    cls = zoo.get_class(ex, name)
                    kw[pname] = tuple(val[i] for i in range(val.shape[0])) if form == "tuple" else val
                    if spec["sig"] == "phys":
                        return cls(D, itv["L"], N, itv["dt"], **kw)
                    return cls(D, N, **kw)

                infov = dict(intent=itv, parameter=pname, form=form, batch="contains an exact zero")
                valz = np.stack([np.zeros_like(np.asarray(base, float)), np.asarray(base, float), 2 * np.asarray(base, float)])
                try:
                    refz = np.stack([np.asarray(makev(jnp.asarray(valz[i]) if form != "scalar" else float(valz[i]))(u)) for i in range(B)])
                except Exception:  # noqa: BLE001
                    continue                       # zero is not an admissible value for this parameter
                if not np.all(np.isfinite(refz)):
                    continue
                try:
                    gotz = np.asarray(eqx.filter_vmap(lambda s: s(u))(eqx.filter_vmap(makev)(jnp.asarray(valz))))
                except Exception as e:  # noqa: BLE001
                    bus.flag("param_batch", f"{type(e).__name__}: {str(e)[:120]}", sig + ("with zero", vname), witness=dict(infov, exc=type(e).__name__))
                    continue
                Sz = scale_of(u, refz)
                bus.judge("param_batch", float(np.max(np.abs(gotz - refz))) / Sz if gotz.shape == refz.shape else np.inf, TOL, sig + ("with zero", vname), witness=infov)


def run_wrapper(case, bus, ex):
    import jax, jax.numpy as jnp, equinox as eqx
    rng = env.rng_for(*case["rs"])
    it = zoo.make_intent(rng, "stepper.Burgers", 1, 12, order=2)
    st = zoo.build(ex, it)
    U = jnp.asarray(make_states(rng, it, 3))
    if case["w"] == "repeated":
        w = ex.RepeatedStepper(st, 3)
        eager = np.stack([np.asarray(w(U[i])) for i in range(3)])
        S = scale_of(U, eager)
        for label, got in (("filter_jit", np.stack([np.asarray(eqx.filter_jit(w)(U[i])) for i in range(3)])), ("vmap", np.asarray(jax.vmap(w)(U))),
                           ("rollout", np.asarray(ex.rollout(w, 2)(U[0]))[0][None].repeat(1, 0))):
            ref = eager if label != "rollout" else eager[:1]
            bus.judge("jit_equals_eager" if label == "filter_jit" else "vmap_equals_loop", float(np.max(np.abs(got - ref))) / S, TOL, ("RepeatedStepper", label), witness=dict(wrapper="RepeatedStepper", program=label))
    else:
        w = ex.ForcedStepper(st)
        F = jnp.asarray(make_states(rng, it, 3))
        eager = np.stack([np.asarray(w(U[i], F[i])) for i in range(3)])
        S = scale_of(U, eager)
        got = np.asarray(jax.vmap(w)(U, F))
        bus.judge("vmap_equals_loop", float(np.max(np.abs(got - eager))) / S, TOL, ("ForcedStepper", "vmap"), witness=dict(wrapper="ForcedStepper"))
        got = np.asarray(eqx.filter_jit(w)(U[0], F[0]))
        bus.judge("jit_equals_eager", float(np.max(np.abs(got - eager[0]))) / S, TOL, ("ForcedStepper", "filter_jit"), witness=dict(wrapper="ForcedStepper"))
        # batch of members, each with its own time-constant forcing: rolling out the mapped stepper == mapping the rollout == the one-at-a-time loop,
        # and a member's result does not depend on another member's forcing
        n = 3
        loop = []
        for i in range(3):
            v, trj = U[i], []
            for _ in range(n):
                v = w(v, F[i])
                trj.append(np.asarray(v))
            loop.append(np.stack(trj))
        loop = np.stack(loop)
        a = np.swapaxes(np.asarray(ex.rollout(jax.vmap(w), n, takes_aux=True, constant_aux=True)(U, F)), 0, 1)
        b = np.asarray(jax.vmap(ex.rollout(w, n, takes_aux=True, constant_aux=True))(U, F))
        c = np.asarray(jax.jit(ex.repeat(jax.vmap(w), n, takes_aux=True, constant_aux=True))(U, F))
        for label, got, ref in (("rollout(vmap(forced),constant_aux)^T", a, loop), ("vmap(rollout(forced,constant_aux))", b, loop), ("jit(repeat(vmap(forced),constant_aux))", c, loop[:, -1])):
            ok = got.shape == ref.shape
            bus.judge("rollout_nesting", float(np.max(np.abs(got - ref))) / S if ok else np.inf, TOL * n, ("ForcedStepper", label), sample=dict(wrapper="ForcedStepper", program=label),
                      witness=dict(wrapper="ForcedStepper", program=label, shapes=[list(got.shape), list(ref.shape)]))
        # the SAME rollout / repeat object reused eagerly with another forcing, then compiled: nothing of an earlier call may survive
        ro1 = ex.rollout(w, n, takes_aux=True, constant_aux=True)
        rp1 = ex.repeat(w, n, takes_aux=True, constant_aux=True)
        for k in (0, 1, 2):
            got_ro, got_rp = np.asarray(ro1(U[0], F[k])), np.asarray(rp1(U[0], F[k]))
            v, trj = U[0], []
            for _ in range(n):
                v = w(v, F[k])
                trj.append(np.asarray(v))
            bus.judge("rollout_nesting", float(np.max(np.abs(got_ro - np.stack(trj)))) / S, TOL * n, ("ForcedStepper", "reused rollout object", k), witness=dict(wrapper="ForcedStepper", program="same rollout object, call %d" % k))
            bus.judge("rollout_nesting", float(np.max(np.abs(got_rp - trj[-1]))) / S, TOL * n, ("ForcedStepper", "reused repeat object", k), witness=dict(wrapper="ForcedStepper", program="same repeat object, call %d" % k))
        got_j = np.asarray(jax.jit(ro1)(U[0], F[1]))
        v, trj = U[0], []
        for _ in range(n):
            v = w(v, F[1])
            trj.append(np.asarray(v))
        bus.judge("jit_equals_eager", float(np.max(np.abs(got_j - np.stack(trj)))) / S, TOL * n, ("ForcedStepper", "jit after eager reuse"), witness=dict(wrapper="ForcedStepper", program="jit(rollout object) after eager calls"))
        F2 = F.at[1].multiply(2.0)
        a2 = np.swapaxes(np.asarray(ex.rollout(jax.vmap(w), n, takes_aux=True, constant_aux=True)(U, F2)), 0, 1)
        same = np.array_equal(a[0], a2[0]) and np.array_equal(a[2], a2[2])
        bus.judge("non_interference", 0.0 if same else 1.0, 0.5, ("ForcedStepper", "aux of another member"), witness=dict(wrapper="ForcedStepper", what="forcing of member 1 changed"))
        tr = np.asarray(ex.rollout(w, 3, takes_aux=True, constant_aux=False)(U[0], F))
        u = U[0]
        for i in range(3):
            u = w(u, F[i])
        bus.judge("rollout_nesting", float(np.max(np.abs(tr[-1] - np.asarray(u)))) / S, TOL * 3, ("ForcedStepper", "rollout(takes_aux)"), witness=dict(wrapper="ForcedStepper"))


def run_hints(case, bus, ex):
    """docs/examples/performance_hints: Fourier-space rollout, ensemble over diffusivities built with eqx.filter_vmap, batched ICs from build_ic_set."""
    import jax, jax.numpy as jnp, equinox as eqx
    x64 = case["x64"]
    eps = float(np.finfo(np.float64 if x64 else np.float32).eps)
    sess = "x64" if x64 else "f32"
    D, L, N, DT = 1, 3.0, 100, 0.1
    st = ex.stepper.Burgers(D, L, N, DT)
    gen = ex.ic.RandomTruncatedFourierSeries(D, cutoff=5, max_one=True)
    u0 = gen(N, key=jax.random.PRNGKey(0))
    n = 100
    tol = 256 * eps * n
    ref = np.asarray(ex.rollout(st, n, include_init=True)(u0)).astype(np.float64)
    S = float(np.max(np.abs(ref)))
    # (1) rollout in Fourier space == rollout in physical space (band-limited IC, N even but no Nyquist content)
    trj_hat = ex.rollout(st.step_fourier, n, include_init=True)(ex.fft(u0))
    back = np.asarray(jax.vmap(lambda h: ex.ifft(h, num_spatial_dims=D, num_points=N))(trj_hat)).astype(np.float64)
    bus.judge("rollout_nesting", float(np.max(np.abs(back - ref))) / S, tol, ("hints", "fourier-space rollout", sess), sample=dict(program="rollout(step_fourier)", session=sess), witness=dict(program="rollout(step_fourier)", session=sess))
    # (2) jit(rollout) and the manual loop
    v, loop = u0, [np.asarray(u0)]
    for _ in range(n):
        v = st(v)
        loop.append(np.asarray(v))
    loop = np.stack(loop).astype(np.float64)
    bus.judge("rollout_nesting", float(np.max(np.abs(ref - loop))) / S, tol, ("hints", "rollout vs loop", sess), witness=dict(program="rollout vs python loop", session=sess))
    got = np.asarray(jax.jit(ex.rollout(st, n, include_init=True))(u0)).astype(np.float64)
    bus.judge("jit_equals_eager", float(np.max(np.abs(got - ref))) / S, tol, ("hints", "jit(rollout)", sess), witness=dict(program="jit(rollout)", session=sess))
    # (3) batch of ICs from build_ic_set through vmap(rollout)
    U = ex.build_ic_set(gen, num_points=N, num_samples=10, key=jax.random.PRNGKey(0))
    a = np.asarray(jax.vmap(ex.rollout(st, 20))(U)).astype(np.float64)
    b = np.stack([np.asarray(ex.rollout(st, 20)(U[i])) for i in range(10)]).astype(np.float64)
    bus.judge("vmap_equals_loop", float(np.max(np.abs(a - b))) / S, 256 * eps * 20, ("hints", "vmap(rollout)(ic set)", sess), witness=dict(program="vmap(rollout)(build_ic_set)", session=sess))
    # (4) ensemble of steppers over diffusivities
    nus = jnp.array([0.1, 0.3, 0.7])
    ens = eqx.filter_vmap(lambda nu: ex.stepper.Burgers(D, L, N, DT, diffusivity=nu))(nus)
    e1 = np.asarray(eqx.filter_vmap(lambda s, u: ex.rollout(s, 20)(u), in_axes=(eqx.if_array(0), None))(ens, u0)).astype(np.float64)
    e2 = np.stack([np.asarray(ex.rollout(ex.stepper.Burgers(D, L, N, DT, diffusivity=float(nu)), 20)(u0)) for nu in (0.1, 0.3, 0.7)]).astype(np.float64)
    bus.judge("param_batch", float(np.max(np.abs(e1 - e2))) / S, 256 * eps * 20, ("hints", "stepper ensemble", sess), sample=dict(program="filter_vmap ensemble over diffusivity", session=sess), witness=dict(program="ensemble", session=sess))
    # (5) ensemble x batch of ICs
    e3 = np.asarray(eqx.filter_vmap(lambda s, uu: jax.vmap(ex.rollout(s, 10))(uu), in_axes=(eqx.if_array(0), None))(ens, U)).astype(np.float64)
    e4 = np.stack([np.stack([np.asarray(ex.rollout(ex.stepper.Burgers(D, L, N, DT, diffusivity=float(nu)), 10)(U[i])) for i in range(10)]) for nu in (0.1, 0.3, 0.7)]).astype(np.float64)
    bus.judge("param_batch", float(np.max(np.abs(e3 - e4))) / S, 256 * eps * 10, ("hints", "ensemble x ic set", sess), witness=dict(program="ensemble x ic set", session=sess))


def run_case(case, bus, ex):
    if case["kind"] == "hints":
        return run_hints(case, bus, ex)
    return {"programs": run_programs, "params": run_params, "wrapper": run_wrapper}[case["kind"]](case, bus, ex)


def classify(v):
    w = v.get("witness") or {}
    it = w.get("intent") or {}
    if v["monitor"] == "param_batch" and it.get("cls") == "generic.GeneralVorticityConvectionStepper" and w.get("parameter") == "injection_scale" \
            and w.get("exc") in ("TracerBoolConversionError", "ConcretizationTypeError"):
        return "F7-genvort-traced-injection-scale"
    return None
