"""C02  ETDRK steppers realise the order-p exponential Runge-Kutta scheme exactly.

Monitors:
  coef_exact      every stored coefficient array of ETDRK1-4 == dt * exact phi-expression (mpmath, 70 digits) of the
                  z = dt*lambda the constructor received; real AND imaginary part; conditioning-aware tolerance
  coef_stepper    the same invariant on the integrators built inside real steppers (symbol from the ctor tap)
  scheme_step     step_fourier(u_hat) == reference Cox-Matthews update (phi-form) with the stepper's own nonlinear
                  term called as a black box; order 0 == exp(dt L) u_hat
  observed_order  error at T against a DOP853 reference of the semi-discrete system over a dt ladder >= p - 0.4
"""
import numpy as np
from rv import env, zoo, taps
from rv.refmodel import grid as G, phi as P, etdrk_ref as R

PROP = "C02"
RULE = ("coef cases = order x z-family (real<0, real>0, imaginary, left-half-plane polar, z=0) x dt x session dtype; stepper "
        "cases = semi-linear class x variant x order x D; an event is one coefficient array / one step / one dt ladder "
        "compared with the exact model; distinct = (monitor, order, family or class+flags, D, dtype); non-trivial = z set "
        "contains non-real entries or the nonlinear term is non-zero")
REQUIRED = {"coef_exact": {"quick": 60, "thorough": 200}, "coef_stepper": {"quick": 60, "thorough": 300},
            "scheme_step": {"quick": 60, "thorough": 300}, "observed_order": {"quick": 8, "thorough": 30}}
ASSUMPTIONS = ["default contour parameters M=16, r=1 unless stated in the case", "entries whose a-priori tolerance exceeds 1e-3 relative are counted ill-conditioned, not judged",
               "observed order is a bounded restatement of 'decays like dt^p'"]
AMBIENT = True            # thorough tier: the repository's own test-suite runs under this property's general monitor (rv/ambient.py)
REQUIRED_AMBIENT = {'ambient_coef_exact': 200}
TIMEOUT = {"quick": 2400, "thorough": 7200}
C_TOL = 256.0

SEMILINEAR = [n for n, s in zoo.SPECS.items() if not s["linear"]]


def z_family(rng, fam, n):
    if fam == "real_neg":
        return -(10.0 ** rng.uniform(-9, 9, size=n)) + 0j
    if fam == "real_pos":
        return 10.0 ** rng.uniform(-9, np.log10(20.0), size=n) + 0j
    if fam == "imag":
        return 1j * rng.choice([-1.0, 1.0], size=n) * 10.0 ** rng.uniform(-9, 6, size=n)
    if fam == "lhp":
        return 10.0 ** rng.uniform(-6, 6, size=n) * np.exp(1j * rng.uniform(np.pi / 2, 3 * np.pi / 2, size=n))
    if fam == "near_contour":
        return (1.0 + rng.uniform(-0.3, 0.3, size=n)) * np.exp(1j * rng.uniform(np.pi / 2, 3 * np.pi / 2, size=n))
    if fam == "contour_nodes":
        # symbols sitting exactly on (or next to) a node of the documented contour  z = -r * root_j  (r = 1, M = 16): left half plane only
        nodes = -P.roots(16)
        nodes = nodes[nodes.real <= 0]
        base = np.concatenate([nodes, nodes * (1 + 1e-6), nodes + 1e-3, nodes * (1 - 1e-2)])
        return np.tile(base, int(np.ceil(n / len(base))))[:n].astype(complex)
    if fam == "special":
        # exactly representable landmarks: the unit circle at multiples of pi/16 (where an *un-rotated* contour would put its nodes), +-1, small integers and halves, tiny offsets
        ang = np.exp(1j * np.pi * np.arange(8, 25, 2) / 16)
        base = np.concatenate([ang, [1.0, -1.0, 2.0, -2.0, 0.5, -0.5, 3.0, -3.0, 1j, -1j, 2j, -2j, 0.0], -1.0 + np.array([1e-2, -1e-2, 1e-4, -1e-4]), 1.0 + np.array([1e-2, -1e-2, 1e-4, -1e-4]),
                               0.9999 * np.array([1.0, -1.0]), np.pi * 1j * np.array([1.0, -1.0, 1.5, 2.0, 3.0, 7.5])]).astype(complex)
        reps = int(np.ceil(n / len(base)))
        return np.tile(base, reps)[:n]
    if fam == "mixed":
        z = np.concatenate([z_family(rng, f, n // 4 + 1) for f in ("real_neg", "imag", "lhp", "real_pos")])[:n]
        z[0] = 0.0
        return z
    raise KeyError(fam)


def cases(tier, seed):
    out = []
    fams = ["real_neg", "real_pos", "imag", "lhp", "near_contour", "mixed", "special", "contour_nodes"]
    reps = 1 if tier == "quick" else 4
    n = 48 if tier == "quick" else 160
    for order in (1, 2, 3, 4):
        for fam in fams:
            for x64 in (True, False):
                for rep in range(reps):
                    out.append(dict(kind="coef", order=order, fam=fam, n=n, x64=x64, unit_dt=(rep % 2 == 0) or not x64,
                                    rs=[seed, env.crc(fam), order, int(x64), rep], cost=3))
    # real steppers
    for name in SEMILINEAR:
        spec = zoo.SPECS[name]
        for D in spec["dims"]:
            Ns = {1: [12, 15], 2: [8, 9], 3: [6]}[D] if tier == "quick" else {1: [10, 15, 24, 33], 2: [6, 9, 12], 3: [5, 6, 8]}[D]
            for N in Ns:
                vs = range(min(spec["nvar"], 2 if tier == "quick" else 6))
                for v in vs:
                    out.append(dict(kind="stepper", cls=name, D=D, N=N, v=v, rs=[seed, env.crc(name), D, N, v], cost=4 * N ** D / 50))
    for nl in ("sin", "uux", "cubic_cplx"):
        for order in (1, 2, 3, 4):
            out.append(dict(kind="user", nl=nl, order=order, rs=[seed, env.crc(nl), order], cost=2))
    # observed order
    probs = ["kdv", "burgers", "ks", "genconv_odd", "fisher", "user_sin_disp"]
    if tier == "thorough":
        probs += ["kdv2d", "gennl_odd", "swift"]
    for pr in probs:
        for order in (1, 2, 3, 4):
            out.append(dict(kind="order", prob=pr, order=order, rs=[seed, env.crc(pr), order], cost=30))
    return out


# ----------------------------------------------------------------------------------------------
def judge_coefs(bus, monitor, integ, order, z, dt, eps, sig, info, M=16, r=1.0):
    """Compare every coefficient array of an ETDRKp instance with the exact closed forms at z."""
    z = np.asarray(z, complex)
    ref = P.exact_array(z)
    nonreal = bool(np.any(z.imag != 0))
    for cname, (fname, fac) in P.COEFS[order].items():
        got = np.asarray(getattr(integ, cname)).astype(complex)
        got = np.broadcast_to(got, z.shape)
        want = dt * fac * ref[fname]
        kappa, trunc = P.contour_conditioning(z, fname, M=M, r=r)
        tol = abs(dt) * fac * (C_TOL * eps * kappa + 4 * trunc)
        mag = np.abs(want) + abs(dt) * fac / (1 + np.abs(z)) ** (2 if fname == "b" else 1)      # natural magnitude of the coefficient near z (phi functions have isolated zeros, e.g. phi_1(2 pi i) = 0)
        judged = tol <= 1e-3 * mag
        node_dist = np.min(np.abs(z[..., None] + r * P.roots(M)), axis=-1)          # distance of z to the nearest node of the contour z + r*root_j = 0
        # ill-conditioned entries are not judged against the exact value - unless the result is outright garbage (NaN / error 10x the value itself): that is the
        # breakdown of the documented contour rule next to its own nodes, a genuine defect reachable only by complex symbols with |z| ~ r
        broken = (~judged) & (~np.isfinite(got) | (np.abs(got - want) > 10 * mag))       # outright garbage, not merely lost digits
        if broken.any():
            i = int(np.argmax(broken.reshape(-1)))
            bus.flag(monitor, f"{cname}: contour evaluation breaks down next to a contour node", sig + (cname, "ill-conditioned"),
                     witness=dict(info, coef=cname, z=complex(z.reshape(-1)[i]), got=repr(complex(got.reshape(-1)[i])), want=complex(want.reshape(-1)[i]),
                                  node_dist=float(node_dist.reshape(-1)[i]), max_node_dist_of_broken=float(np.max(node_dist[broken])), broken_entries=int(broken.sum())))
        bad_fin = judged & ~np.isfinite(got)
        if bad_fin.any():
            bus.flag(monitor, f"non-finite {cname}", sig + (cname,), witness=dict(info, z=z[bad_fin][:3], node_dist=float(np.min(node_dist[bad_fin]))))
            continue
        got = np.where(np.isfinite(got), got, want)
        if judged.sum() == 0:
            bus.skip(monitor, "all ill-conditioned")
            continue
        ratio = np.where(judged, np.abs(got - want) / tol, 0.0)
        i = int(np.argmax(ratio))
        zi = z.reshape(-1)[i]
        bus.judge(monitor, float(ratio.reshape(-1)[i]), 1.0, sig + (cname,),
                  sample=dict(info, coef=cname, entries_judged=int(judged.sum()), ill_conditioned=int((~judged).sum())),
                  witness=dict(info, coef=cname, z=complex(zi), got=complex(got.reshape(-1)[i]), want=complex(want.reshape(-1)[i]),
                               tol=float(tol.reshape(-1)[i])),
                  nontrivial=nonreal or order > 1)
    # exp terms
    e = np.asarray(integ._exp_term).astype(complex)
    with np.errstate(over="ignore"):
        ok = z.real < 600
    if ok.any():
        tiny = 1.2e-38 if eps > 1e-10 else 2.3e-308   # flush-to-zero of subnormals is not a defect
        tol = C_TOL * eps * (1 + np.abs(z)) * np.abs(ref["e"]) + 16 * tiny
        ratio = np.where(ok, np.abs(np.broadcast_to(e, z.shape) - ref["e"]) / tol, 0)
        bus.judge(monitor, float(ratio.max()), 1.0, sig + ("_exp_term",), witness=dict(info, coef="_exp_term"), nontrivial=nonreal)
        if hasattr(integ, "_half_exp_term"):       # exp(z/2): the propagator of the half-step stages (orders 3, 4)
            eh = np.asarray(integ._half_exp_term).astype(complex)
            tolh = C_TOL * eps * (1 + np.abs(z) / 2) * np.abs(ref["eh"]) + 16 * tiny
            ratio = np.where(ok, np.abs(np.broadcast_to(eh, z.shape) - ref["eh"]) / tolh, 0)
            i = int(np.argmax(ratio))
            bus.judge(monitor, float(ratio.max()), 1.0, sig + ("_half_exp_term",), witness=dict(info, coef="_half_exp_term", z=complex(z.reshape(-1)[i]), got=complex(np.broadcast_to(eh, z.shape).reshape(-1)[i]), want=complex(ref["eh"].reshape(-1)[i])), nontrivial=nonreal)


def run_coef(case, bus, ex):
    import jax.numpy as jnp
    rng = env.rng_for(*case["rs"])
    order, fam, n = case["order"], case["fam"], case["n"]
    x64 = case["x64"]
    cd = np.complex128 if x64 else np.complex64
    eps = float(np.finfo(np.float64 if x64 else np.float32).eps)
    zt = z_family(rng, fam, n)
    dt = 1.0 if case["unit_dt"] else float(10 ** rng.uniform(-4, 3))
    Lop = (zt / dt).astype(cd).reshape(1, n)
    z = (Lop.astype(cd) * cd(dt)).astype(cd).astype(complex)   # the rounded z the constructor works with
    cls = getattr(ex.etdrk, f"ETDRK{order}")
    nf = ex.nonlin_fun.ZeroNonlinearFun(1, 2 * (n - 1))
    integ = cls(dt, jnp.asarray(Lop), nf)
    bus.tap(f"ETDRK{order}.__init__")
    judge_coefs(bus, "coef_exact", integ, order, z, dt, eps, (order, fam, "x64" if x64 else "f32", "dt=1" if dt == 1 else "dt!=1"),
                dict(order=order, family=fam, dt=dt, dtype=str(cd.__name__)))
    if fam not in ("contour_nodes", "near_contour", "special"):
        # documented constructor options: other contour resolutions / radii must give the same exact coefficients
        for M_, r_ in ((32, 1.0), (16, 0.5), (24, 2.0), (64, 0.25)):
            integ2 = cls(dt, jnp.asarray(Lop), nf, num_circle_points=M_, circle_radius=r_)
            judge_coefs(bus, "coef_exact", integ2, order, z, dt, eps, (order, fam, "x64" if x64 else "f32", f"M={M_},r={r_}"),
                        dict(order=order, family=fam, dt=dt, dtype=str(cd.__name__), num_circle_points=M_, circle_radius=r_), M=M_, r=r_)
    if order == 4:   # documented aliasing of the half-step coefficients
        same = bool(np.array_equal(np.asarray(integ._coef_1), np.asarray(integ._coef_2), equal_nan=True) and np.array_equal(np.asarray(integ._coef_1), np.asarray(integ._coef_3), equal_nan=True))
        (bus.ok if same else bus.flag)("coef_exact", *( [("etdrk4_half_step_alias",)] if same else ["coef_2/3 differ from coef_1", ("etdrk4_half_step_alias",)]))


def nonlin_np(nf):
    import jax.numpy as jnp
    return lambda v: np.asarray(nf(jnp.asarray(v)))


def stepper_state(rng, C, D, N, amp=0.4):
    return G.random_state(rng, "white", C, D, N, amp=amp)


def run_stepper(case, bus, ex):
    import jax.numpy as jnp
    taps.install_etdrk_ctor_taps(ex, bus)
    rng = env.rng_for(*case["rs"])
    name, D, N, v = case["cls"], case["D"], case["N"], case["v"]
    for order in (0, 1, 2, 3, 4):
        it = zoo.make_intent(rng, name, D, N, variant=v, order=order)
        Mr = (16, 1.0)
        if order >= 1 and rng.uniform() < 0.35:
            Mr = [(32, 1.0), (16, 0.5), (24, 2.0)][int(rng.integers(0, 3))]
            it["kw"]["num_circle_points"], it["kw"]["circle_radius"] = Mr
        st = zoo.build(ex, it)
        integ = st._integrator
        rec = taps.etdrk_intent(integ)
        if rec is None or rec["order"] != order:
            bus.flag("scheme_step", f"order {order} requested but integrator is {type(integ).__name__}", (name, order), witness=dict(intent=it))
            continue
        dt = float(rec["dt"])
        Lop = np.asarray(rec["linear_operator"]).astype(complex)
        z = dt * Lop
        flags = tuple(sorted((k, x) for k, x in it["kw"].items() if isinstance(x, bool)))
        sig = (name, flags, D, N % 2, order)
        info = dict(intent=it)
        has_imag = bool(np.any(np.abs(z.imag) > 0))
        if order >= 1:
            judge_coefs(bus, "coef_stepper", integ, order, z, dt, float(np.finfo(np.float64).eps), sig + ("imag" if has_imag else "real", Mr), info, M=Mr[0], r=Mr[1])
        C = zoo.channels(it)
        u = stepper_state(rng, C, D, N)
        uh = np.fft.rfftn(u, axes=G.axes(D))
        nf = getattr(integ, "_nonlinear_fun", None)
        Nf = nonlin_np(nf) if nf is not None else (lambda w: 0 * w)
        ref = R.step(order, dt, Lop, Nf, uh)
        got = np.asarray(st.step_fourier(jnp.asarray(uh)))
        bus.tap("step_fourier")
        Nu = Nf(uh)
        S = float(np.max(np.abs(uh)) + abs(dt) * np.max(np.abs(Nu))) + 1e-300
        tol = 4e-12 * (1 + min(float(np.max(np.abs(z))), 1e3)) * S
        err = float(np.max(np.abs(got - ref)))
        bus.judge("scheme_step", err, tol, sig + ("imag" if has_imag else "real",), sample=dict(intent=it, S=S),
                  witness=dict(intent=it, err=err, S=S, has_imag=has_imag),
                  nontrivial=bool(np.max(np.abs(Nu)) > 0) or order == 0)


def make_user_stepper(ex, nl, D, L, N, dt, order, lin):
    """A user-written stepper: custom nonlinear function + chosen linear symbol (via the public base classes)."""
    import jax.numpy as jnp

    class UserNL(ex.nonlin_fun.BaseNonlinearFun):
        derivative_operator: object

        def __init__(self, D, N, derivative_operator):
            self.derivative_operator = derivative_operator
            super().__init__(D, N, dealiasing_fraction=2 / 3)

        def __call__(self, u_hat):
            u = self.ifft(u_hat)
            if nl == "sin":
                return self.fft(jnp.sin(u))
            if nl == "uux":
                return -self.fft(u * self.ifft(self.derivative_operator[0:1] * u_hat))
            return self.fft(u ** 3 - 0.3 * u ** 2)

    class UserStepper(ex.BaseStepper):
        def __init__(self):
            super().__init__(num_spatial_dims=D, domain_extent=L, num_points=N, dt=dt, num_channels=1, order=order)

        def _build_linear_operator(self, dop):
            return sum(c * jnp.sum(dop ** j, axis=0, keepdims=True) for j, c in enumerate(lin))

        def _build_nonlinear_fun(self, dop):
            return UserNL(D, N, dop)

    return UserStepper()


def run_user(case, bus, ex):
    import jax.numpy as jnp
    taps.install_etdrk_ctor_taps(ex, bus)
    rng = env.rng_for(*case["rs"])
    nl, order = case["nl"], case["order"]
    for D, N in ((1, 16), (2, 9)):
        L = float(rng.choice([1.0, 2 * np.pi, 5.0]))
        dt = float(10 ** rng.uniform(-2.5, -1))
        lin = (0.0, float(rng.uniform(-1, 1)), float(rng.uniform(0.005, 0.05)), float(rng.uniform(-0.02, 0.02)))
        st = make_user_stepper(ex, nl, D, L, N, dt, order, lin)
        rec = taps.etdrk_intent(st._integrator)
        Lop = np.asarray(rec["linear_operator"]).astype(complex)
        sig = ("user:" + nl, D, N % 2, order)
        info = dict(user_nonlinearity=nl, lin=lin, D=D, N=N, L=L, dt=dt)
        judge_coefs(bus, "coef_stepper", st._integrator, order, dt * Lop, dt, float(np.finfo(np.float64).eps), sig + ("imag",), info)
        u = stepper_state(rng, 1, D, N)
        uh = np.fft.rfftn(u, axes=G.axes(D))
        Nf = nonlin_np(st._integrator._nonlinear_fun)
        ref = R.step(order, dt, Lop, Nf, uh)
        got = np.asarray(st.step_fourier(jnp.asarray(uh)))
        S = float(np.max(np.abs(uh)) + dt * np.max(np.abs(Nf(uh))))
        bus.judge("scheme_step", float(np.max(np.abs(got - ref))), 4e-12 * (1 + min(float(np.max(np.abs(dt * Lop))), 1e3)) * S, sig + ("imag",),
                  sample=info, witness=info)


# ---------------------------------------------------------------------------------------------- observed order
def order_problem(ex, prob, order, dt, rng_seed):
    """Returns (stepper, u0, T-independent info).  Smooth data, mild stiffness."""
    import jax.numpy as jnp
    S = ex.stepper
    if prob == "kdv":
        D, L, N = 1, 2 * np.pi, 32
        st = S.KortewegDeVries(D, L, N, dt, convection_scale=-2.0, dispersivity=0.3, hyper_diffusivity=0.0, diffusivity=0.0, order=order)
    elif prob == "kdv2d":
        D, L, N = 2, 2 * np.pi, 12
        st = S.KortewegDeVries(D, L, N, dt, convection_scale=-1.0, dispersivity=0.2, hyper_diffusivity=0.0, diffusivity=0.01, order=order, single_channel=True)
    elif prob == "burgers":
        D, L, N = 1, 2 * np.pi, 32
        st = S.Burgers(D, L, N, dt, diffusivity=0.05, order=order)
    elif prob == "ks":
        D, L, N = 1, 4 * np.pi, 32
        st = S.KuramotoSivashinsky(D, L, N, dt, order=order, fourth_order_scale=0.02, second_order_scale=0.3)
    elif prob == "genconv_odd":
        D, L, N = 1, 2 * np.pi, 32
        st = S.generic.GeneralConvectionStepper(D, L, N, dt, linear_coefficients=(0.0, -0.7, 0.02, 0.15), convection_scale=1.0, order=order)
    elif prob == "gennl_odd":
        D, L, N = 1, 2 * np.pi, 32
        st = S.generic.GeneralNonlinearStepper(D, L, N, dt, linear_coefficients=(0.0, 0.5, 0.02, -0.1), nonlinear_coefficients=(0.3, -0.8, 0.2), order=order)
    elif prob == "fisher":
        D, L, N = 1, 2 * np.pi, 24
        st = S.reaction.FisherKPP(D, L, N, dt, diffusivity=0.05, reactivity=1.0, order=order)
    elif prob == "swift":
        D, L, N = 1, 4 * np.pi, 24
        st = S.reaction.SwiftHohenberg(D, L, N, dt, order=order, reactivity=0.5, critical_number=0.3)
    elif prob == "user_sin_disp":
        D, L, N = 1, 2 * np.pi, 32
        st = make_user_stepper(ex, "sin", D, L, N, dt, order, (0.0, 0.6, 0.01, 0.2))
    else:
        raise KeyError(prob)
    x = np.arange(N) * L / N
    if D == 1:
        u0 = (0.5 * np.sin(2 * np.pi * x / L) + 0.3 * np.cos(4 * np.pi * x / L + 0.4) + 0.4)[None]
    else:
        X, Y = np.meshgrid(x, x, indexing="ij")
        u0 = (0.5 * np.sin(2 * np.pi * X / L) * np.cos(2 * np.pi * Y / L) + 0.3 * np.cos(4 * np.pi * Y / L + 0.4) + 0.2)[None]
    return st, u0, D, N


def run_order(case, bus, ex):
    import jax, jax.numpy as jnp
    from scipy.integrate import solve_ivp
    taps.install_etdrk_ctor_taps(ex, bus)
    prob, order = case["prob"], case["order"]
    T = 0.4
    ladder = [8, 16, 32, 64] if order >= 3 else [16, 32, 64, 128]
    # reference: integrating-factor form of the semi-discrete system, DOP853
    st0, u0, D, N = order_problem(ex, prob, order, T / ladder[0], 0)
    rec = taps.etdrk_intent(st0._integrator)
    Lop = np.asarray(rec["linear_operator"]).astype(complex)
    nf = jax.jit(lambda w: st0._integrator._nonlinear_fun(w))
    uh0 = np.fft.rfftn(u0, axes=G.axes(D))
    shp = uh0.shape
    Lb = np.broadcast_to(Lop, shp)

    def rhs(t, y):
        v = (y[: y.size // 2] + 1j * y[y.size // 2:]).reshape(shp)
        w = np.exp(Lb * t) * v
        n = np.asarray(nf(jnp.asarray(w)))
        dv = np.exp(-Lb * t) * n
        return np.concatenate([dv.real.reshape(-1), dv.imag.reshape(-1)])

    y0 = np.concatenate([uh0.real.reshape(-1), uh0.imag.reshape(-1)])
    sol = solve_ivp(rhs, (0, T), y0, method="DOP853", rtol=1e-13, atol=1e-14 * np.max(np.abs(uh0)))
    if not sol.success:
        bus.skip("observed_order", "reference integration failed")
        return
    yT = sol.y[:, -1]
    ref_hat = np.exp(Lb * T) * (yT[: yT.size // 2] + 1j * yT[yT.size // 2:]).reshape(shp)
    ref = np.fft.irfftn(ref_hat, s=(N,) * D, axes=G.axes(D))
    errs = []
    for n in ladder:
        st, _, _, _ = order_problem(ex, prob, order, T / n, 0)
        uT = np.asarray(ex.repeat(st, n)(jnp.asarray(u0)))
        errs.append(float(np.max(np.abs(uT - ref))))
    scale = float(np.max(np.abs(u0)))
    floor = 2e-11 * scale
    pairs = [(errs[i], errs[i + 1]) for i in range(len(errs) - 1) if errs[i + 1] > floor and errs[i] > floor]
    sig = (prob, order, "imag" if np.any(Lop.imag != 0) else "real")
    info = dict(problem=prob, order=order, ladder=ladder, errors=errs, T=T)
    if errs[0] > 0.3 * scale:
        bus.skip("observed_order", "not in the asymptotic regime")
        return
    if not pairs:
        # all errors at the rounding floor: the scheme is at least as accurate as required
        bus.ok("observed_order", sig + ("floor",), sample=info)
        return
    orders = [float(np.log2(a / b)) for a, b in pairs]
    info["observed"] = orders
    deficit = order - float(np.median(orders))
    bus.judge("observed_order", deficit, 0.4, sig, sample=info, witness=info)


def run_case(case, bus, ex):
    k = case["kind"]
    if k == "coef":
        return run_coef(case, bus, ex)
    if k == "stepper":
        return run_stepper(case, bus, ex)
    if k == "user":
        return run_user(case, bus, ex)
    if k == "order":
        return run_order(case, bus, ex)
    raise KeyError(k)


def classify(v):
    """Known-finding classifier (mechanism, not case): F1 = imaginary part of the coefficients dropped."""
    w = v.get("witness") or {}
    if v["monitor"] in ("coef_exact", "coef_stepper") and w.get("max_node_dist_of_broken") is not None and w["max_node_dist_of_broken"] < 0.2:
        return "F9-contour-node-breakdown"
    if v["monitor"] in ("coef_exact", "coef_stepper") and isinstance(w.get("got"), list) and isinstance(w.get("want"), list):
        g, r = complex(*w["got"]), complex(*w["want"])
        if g.imag == 0.0 and abs(r.imag) > 0 and abs(g.real - r.real) <= max(w.get("tol", 0), 1e-9 * abs(r)):
            return "F1-etdrk-imag-dropped"
    return None
