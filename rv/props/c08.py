"""C08  Steppers commute with the symmetries of the periodic box.

Metamorphic monitors evaluated on real calls:
  translation   st(roll(u,s)) == roll(st(u),s) - all shifts for small N, white noise included; Kolmogorov forcing restricts the
                shifts to the forcing's invariant axes
  permutation   isotropic configurations: scalars permute with the axes, velocity-type states permute channels with axes, 2D
                vorticity is a pseudo-scalar (st(-w^T) == -st(w)^T), 3D velocity a true vector (all six permutations)
  embedding     a D-dim stepper on a state constant along all but axis a reproduces the 1D stepper (coefficient map from the
                documented symbols, e.g. zeroth-order generic coefficient counted D times)
"""
import itertools
import numpy as np
from rv import env, zoo
from rv.refmodel import grid as G

PROP = "C08"
RULE = ("cases = every exported stepper class x D x N odd/even x ETDRK order; translation uses white noise and every shift vector for N<=6 (sampled "
        "otherwise); permutation uses every axis permutation; embedding every axis; distinct = (monitor, class, flags, D, N parity, order, shift class / "
        "permutation / axis); non-trivial = non-identity shift/permutation and non-constant state")
REQUIRED = {"translation": {"quick": 300, "thorough": 1500}, "permutation": {"quick": 100, "thorough": 500}, "embedding": {"quick": 100, "thorough": 500}}
ASSUMPTIONS = ["axis permutation is asserted for isotropic configurations only; on even N with odd-order linear terms the state is made Nyquist-free (the property's precondition)",
               "float64; tolerance 1e-10 of the state scale (translation of a compiled FFT pipeline is exact only to rounding)"]
AMBIENT = True            # thorough tier: the repository's own test-suite runs under this property's general monitor (rv/ambient.py)
REQUIRED_AMBIENT = {'ambient_translation': 200}
TIMEOUT = {"quick": 2400, "thorough": 7200}
TOL = 2e-10

KOLMO_AXES = {"stepper.KolmogorovFlowVorticity": (0,), "stepper.KolmogorovFlowVelocity": (0, 2)}
VECTOR_STATE = {"stepper.Burgers", "stepper.KortewegDeVries", "stepper.KuramotoSivashinskyConservative", "generic.GeneralConvectionStepper",
                "generic.NormalizedConvectionStepper", "generic.DifficultyConvectionStepper"}


def cases(tier, seed):
    out = []
    for name, spec in zoo.SPECS.items():
        for D in spec["dims"]:
            Ns = {1: [7, 8], 2: [5, 6], 3: [5, 4]}[D] if tier == "quick" else {1: [5, 8, 11, 12], 2: [4, 5, 6, 9], 3: [4, 5, 6]}[D]
            Ns = sorted({zoo.nontrivial_N(name, n) for n in Ns})
            orders = [None] if spec["linear"] else ([int(1 + (env.crc(name) + D) % 4)] if tier == "quick" else [0, 1, 2, 3, 4])
            for N in Ns:
                for o in orders:
                    for v in range(min(spec["nvar"], 2 if tier == "quick" else 4)):
                        out.append(dict(kind="sym", cls=name, D=D, N=N, order=o, v=v, rs=[seed, env.crc(name), D, N, o or 0, v], cost=N ** D / 30 + 1))
    return out


def has_odd_linear(it):
    c, kw = it["cls"], it["kw"]
    if c in ("stepper.Advection", "stepper.AdvectionDiffusion", "stepper.Dispersion", "stepper.KortewegDeVries"):
        return True
    for key in ("linear_coefficients", "normalized_linear_coefficients", "linear_difficulties"):
        if key in kw:
            return any(abs(x) > 0 for x in kw[key][1::2])
    if c == "generic.DifficultyLinearStepperSimple":
        return kw.get("order", 1) % 2 == 1
    return False


def is_isotropic(it):
    for k in ("velocity", "diffusivity", "dispersivity"):
        v = it["kw"].get(k)
        if isinstance(v, list):
            return False
    return it["cls"] not in KOLMO_AXES and not (it["cls"] == "generic.GeneralVorticityConvectionStepper" and it["kw"].get("injection_scale", 0.0) != 0.0)


def embed_intent(it, a):
    """1D intent reproducing the D-dim stepper on states that vary along axis a only (None: no documented reduction)."""
    c, kw, D, N = it["cls"], dict(it["kw"]), it["D"], it["N"]
    one = dict(cls=c, D=1, N=N, kw=kw)
    for k in ("L", "dt"):
        if k in it:
            one[k] = it[k]

    def comp(v, kind):
        if isinstance(v, list):
            v = np.asarray(v, float)
            return float(v[a]) if v.ndim == 1 else float(v[a, a])
        return v
    if c in ("stepper.Advection", "stepper.Diffusion", "stepper.AdvectionDiffusion", "stepper.Dispersion"):
        for k in ("velocity", "diffusivity", "dispersivity"):
            if k in kw:
                kw[k] = comp(kw[k], k)
        return one
    if c in ("stepper.HyperDiffusion", "stepper.Wave", "stepper.Burgers", "stepper.KortewegDeVries", "stepper.KuramotoSivashinsky",
             "stepper.KuramotoSivashinskyConservative", "reaction.AllenCahn", "reaction.CahnHilliard", "reaction.FisherKPP", "reaction.GrayScott", "reaction.SwiftHohenberg"):
        return one
    for key in ("linear_coefficients", "normalized_linear_coefficients"):
        if key in kw:
            co = list(kw[key])
            co[0] = co[0] * D           # documented generic symbol: sum_j a_j sum_d (i k_d)^j counts a_0 D times
            kw[key] = co
    if "linear_difficulties" in kw:
        g = list(kw["linear_difficulties"])
        kw["linear_difficulties"] = [g[0] * D] + [x / D for x in g[1:]]     # alpha_j = gamma_j / (N^j 2^(j-1) D)
    if c == "generic.DifficultyLinearStepperSimple":
        o = kw.get("order", 1)
        kw["difficulty"] = kw["difficulty"] * D if o == 0 else kw["difficulty"] / D
    if "convection_difficulty" in kw:
        kw["convection_difficulty"] = kw["convection_difficulty"] / D
    if "gradient_norm_difficulty" in kw:
        kw["gradient_norm_difficulty"] = kw["gradient_norm_difficulty"] / D
    if "nonlinear_difficulties" in kw:
        nd = list(kw["nonlinear_difficulties"])
        kw["nonlinear_difficulties"] = [nd[0], nd[1] / D, nd[2] / D]
    if c.startswith("generic.") and c != "generic.GeneralVorticityConvectionStepper":
        return one
    if c in ("stepper.NavierStokesVorticity", "stepper.NavierStokesVelocity"):
        # shear states: the convection vanishes, what remains is diffusion + drag, channel by channel
        return dict(cls="generic.GeneralLinearStepper", D=1, N=N, L=it["L"], dt=it["dt"], kw=dict(linear_coefficients=[kw.get("drag", 0.0), 0.0, kw.get("diffusivity", 0.01)]), shear=True)
    if c == "generic.GeneralVorticityConvectionStepper" and kw.get("injection_scale", 0.0) == 0.0:
        co = list(kw["linear_coefficients"])          # a_0 was already multiplied by D above (documented symbol counts it once per axis)
        return dict(cls="generic.GeneralLinearStepper", D=1, N=N, L=it["L"], dt=it["dt"], kw=dict(linear_coefficients=co), shear=True)
    return None


def run_case(case, bus, ex):
    import jax, jax.numpy as jnp
    rng = env.rng_for(*case["rs"])
    name, D, N, order, v = case["cls"], case["D"], case["N"], case["order"], case["v"]
    it = zoo.make_intent(rng, name, D, N, variant=v, order=order)
    zoo.vary_contour(rng, it, prob=0.2)
    zoo.vary_dealiasing(rng, it, prob=0.35)
    st = zoo.build(ex, it)
    C = zoo.channels(it)
    flags = tuple(sorted((k, x) for k, x in it["kw"].items() if isinstance(x, bool)))
    sig = (name, flags, D, N % 2, order)
    info = dict(intent=it)
    stj = jax.jit(lambda x: st(x))
    spat = tuple(range(1, D + 1))

    # ---------------- translation (white noise, all or sampled shifts)
    u = G.random_state(rng, "white", C, D, N, amp=0.4)
    base = np.asarray(stj(jnp.asarray(u)))
    S = float(np.max(np.abs(u)) + np.max(np.abs(base)))
    axes_ok = KOLMO_AXES.get(name, tuple(range(D)))
    if name == "generic.GeneralVorticityConvectionStepper" and it["kw"].get("injection_scale", 0.0) != 0.0:
        axes_ok = (0,)
    shifts = list(itertools.product(*[(range(N) if d in axes_ok else [0]) for d in range(D)]))
    shifts = [s for s in shifts if any(s)]
    if len(shifts) > (24 if D < 3 else 10):
        pick = rng.choice(len(shifts), size=(24 if D < 3 else 10), replace=False)
        shifts = [shifts[i] for i in pick]
        full = False
    else:
        full = True
    if not np.all(np.isfinite(base)):
        bus.skip("translation", "primal not finite")
    else:
        U = np.stack([np.roll(u, s, axis=spat) for s in shifts])
        got = np.asarray(jax.vmap(lambda x: st(x))(jnp.asarray(U)))
        worst, ws = 0.0, None
        for s, g in zip(shifts, got):
            e = float(np.max(np.abs(g - np.roll(base, s, axis=spat))))
            if e > worst or ws is None:
                worst, ws = e, s
        bus.judge("translation", worst / S, TOL, sig + ("all-shifts" if full else "sampled",), sample=dict(info, shifts=len(shifts), state="white"),
                  witness=dict(info, worst_shift=list(ws), err=worst, S=S))
        for _ in range(len(shifts) - 1):
            bus.ok("translation", None, nontrivial=False)

    # ---------------- axis permutations
    if D >= 2 and is_isotropic(it):
        kind = "nyqfree" if (N % 2 == 0 and has_odd_linear(it)) else "white"
        u = G.random_state(rng, kind, C, D, N, amp=0.4)
        if name in ("stepper.NavierStokesVelocity",):
            pass
        base = np.asarray(stj(jnp.asarray(u)))
        S = float(np.max(np.abs(u)) + np.max(np.abs(base)))
        vec = (name in VECTOR_STATE and not it["kw"].get("single_channel", False)) or name == "stepper.NavierStokesVelocity"
        pseudo = name in ("stepper.NavierStokesVorticity", "generic.GeneralVorticityConvectionStepper")
        for perm in itertools.permutations(range(D)):
            if perm == tuple(range(D)):
                continue

            def P(x, perm=perm):
                y = np.transpose(x, (0,) + tuple(1 + p for p in perm))      # new axis i is old axis perm[i]
                if vec:
                    y = y[list(perm)]                                        # components follow their axes
                if pseudo:
                    sgn = np.linalg.det(np.eye(D)[list(perm)])
                    y = y * sgn
                return y
            got = np.asarray(stj(jnp.asarray(P(u))))
            ref = P(base)
            bus.judge("permutation", float(np.max(np.abs(got - ref))) / S, TOL, sig + (perm, kind, "vector" if vec else ("pseudo" if pseudo else "scalar")),
                      sample=dict(info, perm=list(perm), state=kind), witness=dict(info, perm=list(perm), state=kind, err=float(np.max(np.abs(got - ref))), S=S))
    elif D >= 2:
        bus.outside("permutation", "anisotropic configuration")

    # ---------------- embedding: constant along all but one axis == 1D stepper
    if D >= 2:
        for a in range(D):
            it1 = embed_intent(it, a)
            if it1 is None:
                bus.outside("embedding", "no documented 1D reduction")
                continue
            st1 = zoo.build(ex, it1)
            C1 = zoo.channels(it1)
            kind = "nyqfree" if (N % 2 == 0 and has_odd_linear(it)) else "white"
            shape_b = [1] * (D + 1)
            shape_b[1 + a] = N
            if it1.get("shear"):
                # one profile per channel of the D-dim state; the component along axis a must vanish for velocity states (div-free shear)
                prof = G.random_state(rng, kind, C, 1, N, amp=0.4)
                if name == "stepper.NavierStokesVelocity":
                    prof[a] = 0.0
                uD = np.stack([np.broadcast_to(prof[c_].reshape(shape_b[1:]), (N,) * D) for c_ in range(C)])
                ref1 = np.stack([np.asarray(st1(jnp.asarray(prof[c_:c_ + 1])))[0] for c_ in range(C)])
            elif C > 1 and C1 == 1 and name in VECTOR_STATE:
                prof = G.random_state(rng, kind, 1, 1, N, amp=0.4)
                uD = np.zeros((C,) + (N,) * D)
                uD[a] = np.broadcast_to(prof[0].reshape(shape_b[1:]), (N,) * D)
                r1 = np.asarray(st1(jnp.asarray(prof)))[0]
                ref1 = np.zeros((C, N))
                ref1[a] = r1
            else:
                prof = G.random_state(rng, kind, C1, 1, N, amp=0.4)
                uD = np.stack([np.broadcast_to(prof[c_].reshape(shape_b[1:]), (N,) * D) for c_ in range(C1)])
                if uD.shape[0] != C:
                    bus.outside("embedding", "channel layout differs")
                    continue
                ref1 = np.asarray(st1(jnp.asarray(prof)))
            got = np.asarray(stj(jnp.asarray(uD)))
            refD = np.stack([np.broadcast_to(ref1[c_].reshape(shape_b[1:]), (N,) * D) for c_ in range(C)])
            S = float(np.max(np.abs(uD)) + np.max(np.abs(refD)))
            if not np.all(np.isfinite(refD)):
                bus.skip("embedding", "1D primal not finite")
                continue
            bus.judge("embedding", float(np.max(np.abs(got - refD))) / S, TOL, sig + (a, kind), sample=dict(info, axis=a, intent_1d={k: v for k, v in it1.items() if k != "shear"}),
                      witness=dict(info, axis=a, intent_1d={k: v for k, v in it1.items() if k != "shear"}, err=float(np.max(np.abs(got - refD))), S=S))
