"""C09  Conserved quantities and equilibria survive the discretisation exactly.

Monitors:
  mean_conserved   per-channel spatial mean unchanged by a step, arbitrary (white-noise) states, listed classes and flags
  mean_identity    3D rotational convection: mean N(u) == mean(u div u) on the dealiased band for arbitrary u (pins the same path
                   without demanding conservation for compressible inputs, which the documented equation does not give)
  no_work          <u,N(u)> = 0 (1D / single-channel convection both forms; 3D rotational convection on divergence-free u),
                   <w,N(w)> = 0 and <psi,N(w)> = 0 (2D vorticity convection), band-limited states, exact Parseval sums
  fixed_point      every spatially constant equilibrium computed by the model is reproduced over repeated steps, orders 1-4
"""
import numpy as np
from rv import env, zoo
from rv.refmodel import grid as G, aliasfree as A

PROP = "C09"
RULE = ("cases = listed conservation-form classes x flags x D x N odd/even x order 1-4 (0 for linear) x dt; states are white noise with Nyquist content for the mean "
        "claim and band-limited for the no-work claim; fixed points are all real constant roots computed by the model; distinct = (monitor, class, flags, D, "
        "N parity, order, state/equilibrium); non-trivial = non-zero mean / non-zero nonlinear term / non-zero equilibrium")
REQUIRED = {"mean_conserved": {"quick": 200, "thorough": 1000}, "mean_identity": {"quick": 4, "thorough": 10}, "no_work": {"quick": 40, "thorough": 120}, "fixed_point": {"quick": 80, "thorough": 400}}
ASSUMPTIONS = ["3D velocity mean conservation is asserted on divergence-free states only (mean N(u) = mean(u div u) otherwise)", "fixed points: |growth*dt| <= 5", "float64"]
AMBIENT = True            # thorough tier: the repository's own test-suite runs under this property's general monitor (rv/ambient.py)
REQUIRED_AMBIENT = {'ambient_mean_conserved': 60}
TIMEOUT = {"quick": 2400, "thorough": 7200}
EPS = np.finfo(float).eps

MEAN_CLASSES = ["stepper.Advection", "stepper.Diffusion", "stepper.AdvectionDiffusion", "stepper.Dispersion", "stepper.HyperDiffusion", "stepper.Burgers", "stepper.KortewegDeVries",
                "stepper.KuramotoSivashinskyConservative", "stepper.KuramotoSivashinsky", "reaction.CahnHilliard", "stepper.NavierStokesVorticity", "stepper.NavierStokesVelocity"]
FIXED_CLASSES = ["reaction.FisherKPP", "reaction.AllenCahn", "reaction.SwiftHohenberg", "reaction.GrayScott", "reaction.CahnHilliard", "stepper.Burgers", "stepper.KortewegDeVries",
                 "stepper.KuramotoSivashinskyConservative", "stepper.KuramotoSivashinsky", "stepper.NavierStokesVorticity", "stepper.NavierStokesVelocity",
                 "generic.GeneralPolynomialStepper", "generic.GeneralConvectionStepper", "generic.GeneralGradientNormStepper", "generic.GeneralNonlinearStepper"]


def cases(tier, seed):
    out = []
    for name in MEAN_CLASSES:
        spec = zoo.SPECS[name]
        for D in spec["dims"]:
            Ns = {1: [9, 12], 2: [6, 7], 3: [5, 6]}[D] if tier == "quick" else {1: [8, 9, 15, 24], 2: [5, 6, 9, 12], 3: [5, 6, 8]}[D]
            Ns = sorted({zoo.nontrivial_N(name, n) for n in Ns})
            orders = [None] if spec["linear"] else [1, 2, 3, 4]
            for N in Ns:
                for o in orders:
                    for v in range(min(spec["nvar"], 4 if tier == "quick" else 8)):
                        out.append(dict(kind="mean", cls=name, D=D, N=N, order=o, v=v, rs=[seed, env.crc(name), D, N, o or 0, v], cost=N ** D / 40 + 1))
    for form in ("conv_sc_c", "conv_sc_nc", "conv_mc_c", "conv_mc_nc", "vort2d", "rot3d"):
        for D in {"vort2d": (2,), "rot3d": (3,), "conv_mc_c": (1,), "conv_mc_nc": (1,)}.get(form, (1, 2, 3)):
            for N in ({1: [12, 15, 24], 2: [9, 12], 3: [9, 12]}[D] if tier == "quick" else {1: list(range(9, 30, 3)), 2: [9, 10, 12, 15], 3: [9, 10, 12]}[D]):
                out.append(dict(kind="nowork", form=form, D=D, N=N, rs=[seed, env.crc(form), D, N], cost=N ** D / 100 + 1))
    for x64 in (False, True):       # realistic workload: the README quick-start and documented defaults, default (float32) and x64 sessions
        for which in ("readme_ks_conservative", "burgers_default", "ks_combustion_2d", "kdv_default"):
            out.append(dict(kind="realistic", which=which, x64=x64, rs=[seed, env.crc(which)], cost=6))
    for name in FIXED_CLASSES:
        spec = zoo.SPECS[name]
        for D in spec["dims"]:
            for o in (1, 2, 3, 4):
                for rep in range(1 if tier == "quick" else 3):
                    N = zoo.nontrivial_N(name, {1: 10 + rep, 2: 6 + rep, 3: 5 + rep % 2}[D])
                    out.append(dict(kind="fixed", cls=name, D=D, N=N, order=o, v=rep, rs=[seed, env.crc(name), D, o, rep, 3], cost=N ** D / 40 + 1))
    return out


def mean_applicable(it):
    c, kw, D = it["cls"], it["kw"], it["D"]
    if c in ("stepper.Burgers", "stepper.KortewegDeVries", "stepper.KuramotoSivashinskyConservative"):
        cons = kw.get("conservative", c == "stepper.KuramotoSivashinskyConservative")
        return bool(cons or kw.get("single_channel", False) or D == 1)
    if c in ("stepper.NavierStokesVorticity", "stepper.NavierStokesVelocity"):
        return kw.get("drag", 0.0) == 0.0
    return True


def run_mean(case, bus, ex):
    import jax.numpy as jnp
    rng = env.rng_for(*case["rs"])
    name, D, N, order, v = case["cls"], case["D"], case["N"], case["order"], case["v"]
    dt = float(10 ** rng.uniform(-3, 0.5)) if zoo.SPECS[name]["linear"] else float(10 ** rng.uniform(-3, -1.3))
    it = zoo.make_intent(rng, name, D, N, variant=v, order=order, dt=dt)
    if name.startswith("stepper.NavierStokes") and v % 2 == 1 and rng.uniform() < 0.5:
        it["kw"]["drag"] = 0.0
    zoo.vary_contour(rng, it, prob=0.25)
    flags = tuple(sorted((k, x) for k, x in it["kw"].items() if isinstance(x, bool)))
    sig = (name, flags, D, N % 2, order)
    if not mean_applicable(it):
        bus.outside("mean_conserved", "not a conservation-form configuration")
        return
    st = zoo.build(ex, it)
    C = zoo.channels(it)
    for kind in ("white", "checker"):
        u = G.random_state(rng, kind, C, D, N, amp=float(rng.choice([0.3, 1.0])))
        u = u + rng.normal(size=(C,) + (1,) * D)          # non-zero mean
        if name == "stepper.NavierStokesVelocity":
            # precondition: divergence-free (Leray with the model's own projector), keep the mean
            uh = A.leray_full(G.fftn(G.remove_nyquist(u, D), D), D, N, it["L"])
            u = np.real(G.ifftn(uh, D))
        cur = jnp.asarray(u)
        m0 = u.mean(axis=G.axes(D))
        S = float(np.max(np.abs(u)))
        worst = 0.0
        steps = 3
        for i in range(steps):
            cur = st(cur)
            o = np.asarray(cur)
            if not np.all(np.isfinite(o)):
                break
            worst = max(worst, float(np.max(np.abs(o.mean(axis=G.axes(D)) - m0))))
            S = max(S, float(np.max(np.abs(o))))
        else:
            bus.judge("mean_conserved", worst / S, 64 * EPS * steps * (1 + np.log2(N ** D)), sig + (kind,), sample=dict(intent=it, state=kind, mean0=m0.tolist()),
                      witness=dict(intent=it, state=kind, drift=worst, S=S), nontrivial=bool(np.any(np.abs(m0) > 1e-3)))
            continue
        bus.skip("mean_conserved", "non-finite trajectory")
    if name == "stepper.NavierStokesVelocity":
        # the property says "for every state": a compressible (white-noise) velocity state is judged too. The documented rotational-form equation has
        # mean N(u) = mean(u div u) != 0 there, so the mean drifts - reported as known finding F12 (the library follows its documented equation; the
        # property's "every state" over-reaches for non-solenoidal inputs). Divergence-free states are judged strictly above.
        u = G.random_state(rng, "white", 3, 3, N, amp=0.5) + rng.normal(size=(3, 1, 1, 1))
        o = np.asarray(st(jnp.asarray(u)))
        if np.all(np.isfinite(o)):
            kfull = G.kint_full(3, N).astype(float)
            dv = float(np.max(np.abs((1j * kfull * G.fftn(G.remove_nyquist(u, 3), 3)).sum(0)))) / (float(np.max(np.abs(G.fftn(u, 3)))) * (N / 2) + 1e-300)
            drift = float(np.max(np.abs(o.mean(axis=(1, 2, 3)) - u.mean(axis=(1, 2, 3)))))
            S = float(np.max(np.abs(u)) + np.max(np.abs(o)))
            bus.judge("mean_conserved", drift / S, 64 * EPS * (1 + np.log2(N ** 3)), sig + ("compressible white noise",), witness=dict(intent=it, state="white (compressible)", compressible_input=True, rel_divergence=dv, drift=drift, S=S))
        # identity for arbitrary (compressible) u: mean N(u) = mean(u_K div u_K)
        nf = st._integrator._nonlinear_fun
        u = G.random_state(rng, "white", 3, 3, N)
        K = A.documented_cutoff(N, it["kw"].get("dealiasing_fraction", 2 / 3))
        uhK = G.fftn(u, 3) * A.band_mask(3, N, K)
        uK = np.real(G.ifftn(uhK, 3))
        kf = G.kint_full(3, N).astype(float) * (2 * np.pi / it["L"])
        div = np.real(G.ifftn((1j * kf * uhK).sum(0), 3))
        Nu = np.asarray(nf(jnp.asarray(np.fft.rfftn(u, axes=(1, 2, 3)))))
        got = Nu[:, 0, 0, 0].real / N ** 3
        ref = (uK * div[None]).mean(axis=(1, 2, 3))
        S = float(np.max(np.abs(uK)) ** 2 * np.max(np.abs(kf)))
        bus.judge("mean_identity", float(np.max(np.abs(got - ref))) / S, 256 * EPS * np.log2(N ** 3), sig, sample=dict(intent=it, K=K, got=got.tolist(), ref=ref.tolist()), witness=dict(intent=it, got=got.tolist(), ref=ref.tolist()))


def run_nowork(case, bus, ex):
    import jax.numpy as jnp
    rng = env.rng_for(*case["rs"])
    form, D, N = case["form"], case["D"], case["N"]
    L = float(rng.choice([1.0, 2 * np.pi, 4.2]))
    nf = ex.nonlin_fun
    dop = ex.spectral.build_derivative_operator(D, L, N)
    b = float(rng.uniform(0.5, 2))
    if form.startswith("conv_"):
        fun = nf.ConvectionNonlinearFun(D, N, derivative_operator=dop, scale=b, single_channel="sc" in form, conservative=form.endswith("_c"))
        C = 1 if "sc" in form else D
    elif form == "vort2d":
        fun, C = nf.VorticityConvection2d(D, N, convection_scale=b, derivative_operator=dop, dealiasing_fraction=2 / 3), 1
    else:
        fun, C = nf.ProjectedConvection3d(D, N, derivative_operator=dop), 3
    K = A.documented_cutoff(N, 2 / 3)
    if K < 1:
        bus.outside("no_work", "empty band")
        return
    for rep in range(3):
        u = G.band_limit(G.random_state(rng, "white", C, D, N), D, K)       # band-limited: inside the retained band
        if form == "rot3d":
            u = np.real(G.ifftn(A.leray_full(G.fftn(u, D), D, N, L), D))
        uh_r = np.fft.rfftn(u, axes=G.axes(D))
        Nu_r = np.asarray(fun(jnp.asarray(uh_r)))
        Nu = np.fft.irfftn(Nu_r, s=(N,) * D, axes=G.axes(D))
        sig = (form, D, N % 2, rep)
        kmax = 2 * np.pi * K / L
        S = float(np.max(np.abs(u)) ** 3 * kmax * b) + 1e-300
        work = float(np.mean(np.sum(u * Nu, axis=0)))
        info = dict(form=form, D=D, N=N, L=L, K=K, scale=b, Nu_max=float(np.max(np.abs(Nu))))
        bus.judge("no_work", abs(work) / S, 256 * EPS * (1 + np.log2(N ** D)), sig + ("energy",), sample=info, witness=dict(info, work=work), nontrivial=float(np.max(np.abs(Nu))) > 1e-9 * S)
        if form == "vort2d":
            kf = G.kint_full(2, N).astype(float) * (2 * np.pi / L)
            k2 = (kf ** 2).sum(0)
            psi = np.real(G.ifftn(np.where(k2 == 0, 0, -G.fftn(u, 2) / np.where(k2 == 0, 1, k2)), 2))
            wpsi = float(np.mean(psi * Nu))
            S2 = S * max(1.0, (L / (2 * np.pi)) ** 2)
            bus.judge("no_work", abs(wpsi) / S2, 256 * EPS * (1 + np.log2(N ** D)), sig + ("stream-function",), witness=dict(info, work=wpsi))


def real_roots(coefs):
    """Real roots of sum_j c_j x^j."""
    c = np.trim_zeros(np.asarray(coefs, float), "b")
    if len(c) <= 1:
        return []
    r = np.roots(c[::-1])
    return sorted({round(float(x.real), 12) for x in r if abs(x.imag) < 1e-9 * (1 + abs(x.real))})


def equilibria(it, rng):
    """List of (label, constant state vector (C,), growth rate bound) computed by the model from the documented equations."""
    c, kw, D = it["cls"], it["kw"], it["D"]
    C = zoo.channels(it)
    rnd = [float(x) for x in rng.uniform(-1.5, 1.5, size=C)]
    if c == "reaction.FisherKPP":
        r = kw["reactivity"]
        return [("0", [0.0], r), ("1", [1.0], r)]
    if c == "reaction.AllenCahn":
        c1, c3 = kw["first_order_coefficient"], kw["third_order_coefficient"]
        out = [("0", [0.0], abs(c1))]
        if -c1 / c3 > 0:
            s = float(np.sqrt(-c1 / c3))
            out += [("+sqrt", [s], 2 * abs(c1)), ("-sqrt", [-s], 2 * abs(c1))]
        return out
    if c == "reaction.SwiftHohenberg":
        r, k = kw["reactivity"], kw["critical_number"]
        p = list(kw["polynomial_coefficients"])
        lin = r - k ** 2
        co = p + [0.0] * max(0, 2 - len(p))
        co[1] += lin
        return [(f"root{i}", [x], abs(lin) + sum(abs(j * a) * abs(x) ** max(j - 1, 0) for j, a in enumerate(p))) for i, x in enumerate(real_roots(co))]
    if c == "reaction.GrayScott":
        f, k = kw["feed_rate"], kw["kill_rate"]
        out = [("(1,0)", [1.0, 0.0], f + k)]
        disc = 1 - 4 * (f + k) ** 2 / f
        if disc > 0:
            for sgn in (1, -1):
                u = 0.5 * (1 + sgn * np.sqrt(disc))
                v = f * (1 - u) / ((f + k) * u) * u / u if u != 0 else 0.0
                v = (f + k) and f * (1 - u) / (u * ((f + k))) * 1.0
                # from f(1-u) = u v^2 and (f+k) v = u v^2  ->  v = f(1-u)/(f+k)
                v = f * (1 - u) / (f + k)
                out.append((f"nontrivial{sgn}", [float(u), float(v)], 3.0))
        return out
    if c == "generic.GeneralPolynomialStepper":
        a0 = kw["linear_coefficients"][0] * D
        p = list(kw["polynomial_coefficients"])
        co = p + [0.0] * max(0, 2 - len(p))
        co[1] += a0
        return [(f"root{i}", [x], abs(a0) + sum(abs(j * a) * abs(x) ** max(j - 1, 0) for j, a in enumerate(p))) for i, x in enumerate(real_roots(co))]
    if c == "generic.GeneralNonlinearStepper":
        a0 = kw["linear_coefficients"][0] * D
        s0 = kw["nonlinear_coefficients"][0]
        out = [("0", [0.0], abs(a0))]
        if s0 != 0 and a0 != 0:
            out.append(("-a0/s0", [-a0 / s0], abs(a0)))
        return out
    if c in ("generic.GeneralConvectionStepper", "generic.GeneralGradientNormStepper"):
        if kw["linear_coefficients"][0] != 0:
            return [("0", [0.0] * C, abs(kw["linear_coefficients"][0]) * D)]
        return [("const", rnd, 0.0), ("0", [0.0] * C, 0.0)]
    if c in ("stepper.NavierStokesVorticity", "stepper.NavierStokesVelocity"):
        if kw.get("drag", 0.0) != 0.0:
            return [("0", [0.0] * C, abs(kw["drag"]))]
        return [("const", rnd, 0.0), ("0", [0.0] * C, 0.0)]
    # convection-type, KS, Cahn-Hilliard: every constant is an equilibrium
    return [("const", rnd, 0.0), ("0", [0.0] * C, 0.0)]


def run_fixed(case, bus, ex):
    import jax.numpy as jnp
    rng = env.rng_for(*case["rs"])
    name, D, N, order = case["cls"], case["D"], case["N"], case["order"]
    it = zoo.make_intent(rng, name, D, N, variant=case["v"], order=order, dt=float(10 ** rng.uniform(-2.5, -0.5)))
    zoo.vary_contour(rng, it, prob=0.4)
    st = zoo.build(ex, it)
    flags = tuple(sorted((k, x) for k, x in it["kw"].items() if isinstance(x, bool)))
    for label, ustar, growth in equilibria(it, rng):
        dt = it.get("dt", 1.0)
        # explicit treatment of the convective term: rounding noise in the retained band is advected with speed |b u*|; its per-step amplification is
        # bounded by exp(dt |b| |u*| k_band) (a property of the scheme at large convective CFL numbers, not of the fixed point)
        kw = it["kw"]
        bscale = abs(kw.get("convection_scale", kw.get("vorticity_convection_scale", 0.0)))
        if it["cls"] in ("generic.GeneralNonlinearStepper",):
            bscale = abs(kw["nonlinear_coefficients"][1]) + abs(kw["nonlinear_coefficients"][0])
        Kb = max(1, int(np.floor(kw.get("dealiasing_fraction", 2 / 3) * (N // 2) - 1 + 1e-9)))
        growth = growth + bscale * max(abs(x) for x in ustar) * (2 * np.pi / it.get("L", 1.0)) * Kb
        if growth * dt > 2:
            bus.outside("fixed_point", "growth*dt > 2: rounding noise would be amplified by the dynamics / the explicit convective term")
            continue
        C = len(ustar)
        u0 = np.broadcast_to(np.asarray(ustar, float).reshape((C,) + (1,) * D), (C,) + (N,) * D).copy()
        cur = jnp.asarray(u0)
        nsteps = 5
        worst = 0.0
        for i in range(nsteps):
            cur = st(cur)
            worst = max(worst, float(np.max(np.abs(np.asarray(cur) - u0))))
        S = max(1.0, float(np.max(np.abs(u0))))
        amp = np.exp(min(growth * dt * nsteps, 50.0))
        bus.judge("fixed_point", worst / S, 512 * EPS * nsteps * amp * (1 + np.log2(N ** D)) * max(1.0, float(np.exp(it["kw"].get("circle_radius", 1.0)))), (name, flags, D, N % 2, order, label, it["kw"].get("circle_radius", 1.0)),
                  sample=dict(intent=it, equilibrium=label, value=ustar), witness=dict(intent=it, equilibrium=label, value=ustar, drift=worst), nontrivial=any(abs(x) > 0 for x in ustar))


def run_realistic(case, bus, ex):
    """Documented quick-start configurations under the mean monitor: every recorded step of a long jit-ed rollout (history checker)."""
    import jax, jax.numpy as jnp
    which, x64 = case["which"], case["x64"]
    key = jax.random.PRNGKey(0)
    if which == "readme_ks_conservative":
        st = ex.stepper.KuramotoSivashinskyConservative(num_spatial_dims=1, domain_extent=100.0, num_points=200, dt=0.1)
        u0 = ex.ic.RandomTruncatedFourierSeries(num_spatial_dims=1, cutoff=5)(num_points=200, key=key)
        n = 500
    elif which == "burgers_default":
        st = ex.stepper.Burgers(1, 1.0, 100, 0.01)
        u0 = ex.ic.RandomTruncatedFourierSeries(1, cutoff=5, max_one=True)(100, key=key)
        n = 300
    elif which == "ks_combustion_2d":
        st = ex.stepper.KuramotoSivashinsky(2, 30.0, 32, 0.1)
        u0 = ex.ic.RandomTruncatedFourierSeries(2, cutoff=3)(32, key=key)
        n = 200
    else:
        st = ex.stepper.KortewegDeVries(1, 20.0, 100, 0.01)
        u0 = ex.ic.RandomTruncatedFourierSeries(1, cutoff=5, max_one=True)(100, key=key)
        n = 300
    trj = np.asarray(jax.jit(ex.rollout(st, n, include_init=True))(u0)).astype(np.float64)
    eps = float(np.finfo(np.float64 if x64 else np.float32).eps)
    D = st.num_spatial_dims
    m = trj.mean(axis=tuple(range(2, 2 + D)))          # (n+1, C)
    fin = np.all(np.isfinite(trj), axis=tuple(range(1, 2 + D)))
    S = float(np.max(np.abs(trj[0])))
    for i in range(1, n + 1):
        if not fin[i]:
            bus.skip("mean_conserved", "trajectory left the finite range")
            break
        if i % 25 and i != n:
            continue
        S = max(S, float(np.max(np.abs(trj[i]))))
        bus.judge("mean_conserved", float(np.max(np.abs(m[i] - m[0]))) / S, 8 * eps * np.sqrt(i) * (1 + np.log2(st.num_points ** D)), ("realistic:" + which, "x64" if x64 else "f32", "step<=100" if i <= 100 else "step>100"),
                  sample=dict(workload=which, session="x64" if x64 else "f32", step=i, drift=float(np.max(np.abs(m[i] - m[0])))) if i == n else None,
                  witness=dict(workload=which, session="x64" if x64 else "f32", step=i, drift=float(np.max(np.abs(m[i] - m[0]))), S=S))


def run_case(case, bus, ex):
    if case["kind"] == "realistic":
        return run_realistic(case, bus, ex)
    return {"mean": run_mean, "nowork": run_nowork, "fixed": run_fixed}[case["kind"]](case, bus, ex)


def classify(v):
    w = v.get("witness") or {}
    it = w.get("intent") or {}
    if v["monitor"] == "mean_conserved" and it.get("cls") in ("stepper.NavierStokesVelocity", "stepper.KolmogorovFlowVelocity") and w.get("compressible_input") and w.get("rel_divergence", 0) > 1e-6:
        return "F12-ns3d-mean-drift-on-compressible-states"
    return None
