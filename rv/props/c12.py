"""C12  Forcing terms inject exactly the documented field.

Monitors:
  laminar          history checker: rollout(stepper, n)(zeros) == f(x) (e^{sigma t}-1)/sigma at EVERY recorded step, sigma = lambda - nu (2 pi k/L)^2, with f as
                   DOCUMENTED: 2D vorticity  -k (2pi/L) gamma cos(2 pi k x_1/L);  3D velocity  gamma sin(2 pi k x_1/L) in channel 0, zero elsewhere.
                   Exact for every order >= 1 and every dt (constant forcing is integrated exactly, the convection of a one-mode shear flow vanishes).
  zero_injection   injection_scale = 0 == the unforced stepper
  general_equals_kolmogorov   GeneralVorticityConvectionStepper with injection == KolmogorovFlowVorticity
  forced_stepper   ForcedStepper(st)(u,f) == st(u + dt f), f = 0 == st, state and Fourier form, over several base steppers
"""
import numpy as np
from rv import env, zoo
from rv.refmodel import grid as G

PROP = "C12"
RULE = ("cases = {2D vorticity, 3D velocity, general vorticity} x L in {2pi,1,3,0.37,11} x N odd/even x injection mode k x gamma x nu x lambda x order 1-4 x dt x n steps; every "
        "recorded time level is one event; distinct = (monitor, class, L==2pi?, N parity, k, order, step bucket); non-trivial = gamma != 0")
REQUIRED = {"laminar": {"quick": 200, "thorough": 1500}, "zero_injection": {"quick": 10, "thorough": 40}, "general_equals_kolmogorov": {"quick": 10, "thorough": 30},
            "forced_stepper": {"quick": 40, "thorough": 200}}
ASSUMPTIONS = ["injection wavenumber strictly below Nyquist", "float64"]
TIMEOUT = {"quick": 2400, "thorough": 7200}
EPS = np.finfo(float).eps
LS = [2 * np.pi, 1.0, 3.0, 0.37, 11.0, 2.2, 6.4]


def cases(tier, seed):
    out = []
    for cls in ("stepper.KolmogorovFlowVorticity", "stepper.KolmogorovFlowVelocity", "generic.GeneralVorticityConvectionStepper"):
        D = 3 if cls.endswith("Velocity") else 2
        Ns = ({2: [8, 9], 3: [6, 7]}[D]) if tier == "quick" else ({2: [6, 9, 12, 15], 3: [5, 6, 8, 9]}[D])
        for Li, L in enumerate(LS):
            for N in Ns:
                for order in (1, 2, 3, 4):
                    for rep in range(1 if tier == "quick" else 2):
                        out.append(dict(kind="laminar", cls=cls, D=D, N=N, L=L, order=order, rs=[seed, env.crc(cls), Li, N, order, rep], cost=N ** D / 100 + 1))
    for cls in ("stepper.KolmogorovFlowVorticity", "stepper.KolmogorovFlowVelocity"):
        for order in (1, 2, 3, 4):
            for rep in range(2 if tier == "quick" else 6):
                out.append(dict(kind="zero", cls=cls, order=order, rs=[seed, env.crc(cls), order, rep, 5], cost=2))
    for order in (1, 2, 3, 4):
        for rep in range(3 if tier == "quick" else 10):
            out.append(dict(kind="genkol", order=order, rs=[seed, order, rep, 6], cost=2))
    for base in ("stepper.Burgers", "stepper.Diffusion", "stepper.KuramotoSivashinsky", "stepper.NavierStokesVorticity", "reaction.GrayScott", "stepper.Wave", "stepper.KortewegDeVries"):
        for rep in range(2 if tier == "quick" else 6):
            out.append(dict(kind="forced", cls=base, rs=[seed, env.crc(base), rep, 7], cost=2))
    return out


def run_laminar(case, bus, ex):
    import jax, jax.numpy as jnp
    rng = env.rng_for(*case["rs"])
    cls, D, N, L, order = case["cls"], case["D"], case["N"], case["L"], case["order"]
    k = 1 + (order + N + case["rs"][-1]) % ((N - 1) // 2)          # every admissible injection mode is reached deterministically over (order, N, repetition)
    gamma = float(rng.uniform(0.3, 2.0) * rng.choice([-1, 1]))
    nu = float(10 ** rng.uniform(-3, -1)) * (L / (2 * np.pi)) ** 2
    lam = -float(rng.choice([0.0, rng.uniform(0.01, 0.5)]))
    dt = float(10 ** rng.uniform(-3, 1.3))
    n = int(rng.choice([1, 7, 20]))
    C = zoo.get_class(ex, cls)
    if cls == "stepper.KolmogorovFlowVorticity":
        st = C(2, L, N, dt, diffusivity=nu, drag=lam, injection_mode=k, injection_scale=gamma, order=order, convection_scale=float(rng.uniform(0.5, 1.5)))
    elif cls == "generic.GeneralVorticityConvectionStepper":
        st = C(2, L, N, dt, linear_coefficients=(lam / 2, 0.0, nu), injection_mode=k, injection_scale=gamma, order=order)
    else:
        st = C(3, L, N, dt, diffusivity=nu, drag=lam, injection_mode=k, injection_scale=gamma, order=order)
    nch = 1 if D == 2 else 3
    X = G.grid(D, L, N)
    kp = 2 * np.pi * k / L
    if D == 2:
        f = (-k * (2 * np.pi / L) * gamma * np.cos(kp * X[1]))[None]
    else:
        f = np.zeros((3,) + (N,) * 3)
        f[0] = gamma * np.sin(kp * X[1])
    sigma = lam - nu * kp ** 2
    trj = np.asarray(jax.jit(ex.rollout(st, n))(jnp.zeros((nch,) + (N,) * D)))
    info = dict(cls=cls, D=D, N=N, L=L, k=k, gamma=gamma, nu=nu, drag=lam, dt=dt, order=order, n=n)
    fmax = float(np.max(np.abs(f)))
    strain = 0.0        # integral of max|grad u| of the laminar flow: bounds the growth of rounding perturbations (shear instability)
    for i in range(n):
        t = (i + 1) * dt
        g = t if sigma == 0 else np.expm1(sigma * t) / sigma
        strain += dt * (fmax * abs(g) if D == 2 else fmax * abs(g) * kp)
        if strain > 20.0:
            bus.outside("laminar", "laminar shear flow may amplify rounding noise by more than e^20")
            continue
        ref = f * g
        err = float(np.max(np.abs(trj[i] - ref))) / (fmax * abs(g))
        bucket = "1" if i == 0 else ("2-7" if i < 7 else "8+")
        # witness numbers for the known-finding classifiers: projection of the result on the documented shape
        wit = dict(info, step=i + 1, err=err)
        if err > 1e-6:
            proj = float(np.sum(trj[i] * ref) / (np.sum(ref * ref) + 1e-300))
            wit["amplitude_ratio"] = proj
            wit["L_over_2pi"] = L / (2 * np.pi)
            if D == 3:
                cosf = gamma * np.cos(kp * X[1]) * g
                wit["cos_ratio"] = float(np.sum(trj[i][0] * cosf) / (np.sum(cosf * cosf) + 1e-300))
                wit["residual_after_cos_fit"] = float(np.max(np.abs(trj[i][0] - wit["cos_ratio"] * cosf)) / (fmax * abs(g)))
            else:
                wit["residual_after_fit"] = float(np.max(np.abs(trj[i] - proj * ref)) / (fmax * abs(g)))
        bus.judge("laminar", err, 1024 * EPS * (1 + np.log2(N ** D)) * (i + 1) * np.exp(strain), (cls, abs(L - 2 * np.pi) < 1e-12, N % 2, k, order, bucket),
                  sample=dict(info, step=i + 1) if i in (0, n - 1) else None, witness=wit, nontrivial=True)


def run_zero(case, bus, ex):
    import jax.numpy as jnp
    rng = env.rng_for(*case["rs"])
    cls, order = case["cls"], case["order"]
    D = 3 if cls.endswith("Velocity") else 2
    N = int(rng.choice([6, 7, 8]))
    L = float(rng.choice(LS))
    nu, lam, dt = float(rng.uniform(0.005, 0.05)), -float(rng.uniform(0, 0.3)), float(10 ** rng.uniform(-2.5, -1))
    u = G.random_state(rng, "white", 1 if D == 2 else 3, D, N, amp=0.5)
    if D == 2:
        b = float(rng.uniform(0.5, 1.5))
        a = ex.stepper.KolmogorovFlowVorticity(2, L, N, dt, diffusivity=nu, drag=lam, injection_scale=0.0, convection_scale=b, order=order)
        r = ex.stepper.NavierStokesVorticity(2, L, N, dt, diffusivity=nu, drag=lam, vorticity_convection_scale=b, order=order)
    else:
        a = ex.stepper.KolmogorovFlowVelocity(3, L, N, dt, diffusivity=nu, drag=lam, injection_scale=0.0, order=order)
        r = ex.stepper.NavierStokesVelocity(3, L, N, dt, diffusivity=nu, drag=lam, order=order)
    ua, ur = jnp.asarray(u), jnp.asarray(u)
    worst = 0.0
    for _ in range(3):
        ua, ur = a(ua), r(ur)
        worst = max(worst, float(np.max(np.abs(np.asarray(ua) - np.asarray(ur)))))
    bus.judge("zero_injection", worst / float(np.max(np.abs(u))), 1e-12, (cls, order, N % 2), sample=dict(cls=cls, N=N, L=L, order=order), witness=dict(cls=cls, N=N, L=L, order=order, diff=worst))


def run_genkol(case, bus, ex):
    import jax.numpy as jnp
    rng = env.rng_for(*case["rs"])
    order = case["order"]
    N = int(rng.choice([6, 7, 8, 9]))
    L = float(rng.choice(LS))
    nu, lam, dt = float(rng.uniform(0.005, 0.05)), -float(rng.uniform(0, 0.3)), float(10 ** rng.uniform(-2.5, -1))
    k, gamma, b = int(rng.integers(1, (N - 1) // 2 + 1)), float(rng.uniform(0.3, 2)), float(rng.uniform(0.5, 1.5))
    a = ex.stepper.KolmogorovFlowVorticity(2, L, N, dt, diffusivity=nu, drag=lam, injection_mode=k, injection_scale=gamma, convection_scale=b, order=order)
    g = ex.stepper.generic.GeneralVorticityConvectionStepper(2, L, N, dt, vorticity_convection_scale=b, linear_coefficients=(lam / 2, 0.0, nu), injection_mode=k, injection_scale=gamma, order=order)
    u = G.random_state(rng, "white", 1, 2, N, amp=0.5)
    ua, ug = jnp.asarray(u), jnp.asarray(u)
    worst = 0.0
    for _ in range(3):
        ua, ug = a(ua), g(ug)
        worst = max(worst, float(np.max(np.abs(np.asarray(ua) - np.asarray(ug)))))
    S = float(np.max(np.abs(u))) + abs(gamma) * k * 2 * np.pi / L * dt
    bus.judge("general_equals_kolmogorov", worst / S, 1e-11, (order, N % 2, abs(L - 2 * np.pi) < 1e-12), sample=dict(N=N, L=L, k=k, order=order), witness=dict(N=N, L=L, k=k, order=order, diff=worst))


def run_forced(case, bus, ex):
    import jax.numpy as jnp
    rng = env.rng_for(*case["rs"])
    cls = case["cls"]
    spec = zoo.SPECS[cls]
    D = int(rng.choice(spec["dims"]))
    N = {1: 12, 2: 7, 3: 5}[D] + int(rng.integers(0, 2))
    it = zoo.make_intent(rng, cls, D, N, variant=int(rng.integers(0, spec["nvar"])), order=(None if spec["linear"] else int(rng.integers(1, 5))))
    st = zoo.build(ex, it)
    fs = ex.ForcedStepper(st)
    C = zoo.channels(it)
    u = G.random_state(rng, "white", C, D, N, amp=0.4)
    f = G.random_state(rng, "white", C, D, N, amp=float(10 ** rng.uniform(-2, 1)))
    dt = it.get("dt", 1.0)
    uj, fj = jnp.asarray(u), jnp.asarray(f)
    sig = (cls, D, N % 2)
    info = dict(intent=it)
    ref = np.asarray(st(jnp.asarray(u + dt * f)))
    S = float(np.max(np.abs(u)) + dt * np.max(np.abs(f)) + np.max(np.abs(ref)))
    got = np.asarray(fs(uj, fj))
    bus.judge("forced_stepper", float(np.max(np.abs(got - ref))) / S, 1e-12, sig + ("call",), sample=info, witness=info)
    got = np.asarray(fs.step(uj, fj))
    bus.judge("forced_stepper", float(np.max(np.abs(got - ref))) / S, 1e-12, sig + ("step",), witness=info)
    got0 = np.asarray(fs(uj, jnp.zeros_like(uj)))
    bus.judge("forced_stepper", float(np.max(np.abs(got0 - np.asarray(st(uj))))) / S, 1e-12, sig + ("zero-forcing",), witness=info)
    uh, fh = np.fft.rfftn(u, axes=G.axes(D)), np.fft.rfftn(f, axes=G.axes(D))
    goth = np.asarray(fs.step_fourier(jnp.asarray(uh), jnp.asarray(fh)))
    refh = np.asarray(st.step_fourier(jnp.asarray(uh + dt * fh)))
    bus.judge("forced_stepper", float(np.max(np.abs(goth - refh))) / (S * N ** D), 1e-12, sig + ("fourier",), witness=info)
    # and against the physical-space result
    back = np.fft.irfftn(goth, s=(N,) * D, axes=G.axes(D))
    bus.judge("forced_stepper", float(np.max(np.abs(back - ref))) / S, 1e-10, sig + ("fourier-vs-state",), witness=info)


def run_case(case, bus, ex):
    return {"laminar": run_laminar, "zero": run_zero, "genkol": run_genkol, "forced": run_forced}[case["kind"]](case, bus, ex)


def classify(v):
    """F3: 2D amplitude = (L/2pi) x documented.  F4: 3D field is (gamma/2) cos instead of gamma sin."""
    w = v.get("witness") or {}
    if v["monitor"] != "laminar":
        return None
    if w.get("D") == 2 and "amplitude_ratio" in w:
        if abs(w["L"] - 2 * np.pi) > 1e-9 and abs(w["amplitude_ratio"] - w["L_over_2pi"]) <= 1e-8 * w["L_over_2pi"] and w.get("residual_after_fit", 1) < 1e-8:
            return "F3-kolmogorov2d-missing-2pi-over-L"
    if w.get("D") == 3 and "cos_ratio" in w:
        if abs(w["cos_ratio"] - 0.5) < 1e-8 and w.get("residual_after_cos_fit", 1) < 1e-8:
            return "F4-kolmogorov3d-half-cos"
    return None
