"""C13  Specific, generic, normalized and difficulty interfaces give the same dynamics.

Cross-interface monitor. The equivalent coefficient lists are derived BY THE MODEL from the documented symbols / formulas (never with the
library's own conversion functions):
  specific_vs_generic      every (specific, generic) pair of the stepper overview
  general_vs_normalized    alpha_j = a_j dt / L^j, beta_1 = b_1 dt / L, beta_2 = b_2 dt / L^2, polynomial * dt
  normalized_vs_difficulty gamma_0 = alpha_0, gamma_j = alpha_j N^j 2^(j-1) D, delta_1 = beta_1 M N D, delta_2 = beta_2 M N^2 D
  rescaling_invariance     (L, dt, coeffs) -> (sL, t dt, rescaled) with identical non-dimensional groups gives the identical step
  conversion_formulas      normalize/denormalize/reduce/extract follow the documented formulas and are mutual inverses
"""
import numpy as np
from rv import env, zoo
from rv.refmodel import grid as G

PROP = "C13"
RULE = ("cases = pair/family x D x N odd/even x order 0-4 x flags x (L, dt, coefficients) draws; states white noise and smooth; distinct = (monitor, pair/family, flags, D, N parity, order); "
        "non-trivial = the two steppers were built through different public classes and the step changes the state")
REQUIRED = {"specific_vs_generic": {"quick": 150, "thorough": 600}, "general_vs_normalized": {"quick": 80, "thorough": 400}, "normalized_vs_difficulty": {"quick": 80, "thorough": 400},
            "rescaling_invariance": {"quick": 80, "thorough": 400}, "conversion_formulas": {"quick": 100, "thorough": 400}}
ASSUMPTIONS = ["generic symbol sum_j a_j sum_d (i k_d)^j: a zeroth-order coefficient counts D times (the documented symbol; FisherKPP(r) == linear_coefficients (r/D, 0, nu))",
               "anisotropic / mixed-derivative options of the specific steppers have no generic counterpart and are not paired"]
TIMEOUT = {"quick": 2400, "thorough": 7200}
TOL = 1e-10

PAIRS = ["advection", "diffusion", "advection_diffusion", "dispersion", "hyper_diffusion", "burgers", "kdv", "ksc", "ks", "ns_vorticity", "fisher", "allen_cahn",
         "swift_1d", "burgers_as_nonlinear", "ks_as_nonlinear", "fisher_as_nonlinear", "kdv_as_nonlinear", "linear_as_convection"]
FAMILIES = ["linear", "convection", "gradient_norm", "polynomial", "nonlinear"]


def cases(tier, seed):
    out = []
    Ns = {1: [12, 15], 2: [7, 8], 3: [6, 7]} if tier == "quick" else {1: [9, 12, 16, 21], 2: [6, 7, 9, 12], 3: [6, 7, 8]}
    for pair in PAIRS:
        for D in (1, 2, 3):
            if pair == "swift_1d" and D > 1 or pair == "ns_vorticity" and D != 2:
                continue
            for N in Ns[D]:
                for rep in range(1 if tier == "quick" else 2):
                    out.append(dict(kind="pair", pair=pair, D=D, N=N, rs=[seed, env.crc(pair), D, N, rep], cost=N ** D / 50 + 1))
    for fam in FAMILIES:
        for D in (1, 2, 3):
            for N in Ns[D]:
                for rep in range(2 if tier == "quick" else 4):       # rep also selects the coefficient relation in run_family (together with N)
                    out.append(dict(kind="family", fam=fam, D=D, N=N, rs=[seed, env.crc(fam), D, N, rep, 1], cost=N ** D / 30 + 1))
    for rep in range(8 if tier == "quick" else 40):
        out.append(dict(kind="formulas", rs=[seed, rep, 2], cost=0.3))
    return out


def compare(bus, monitor, a, b, u, sig, info, steps=2):
    import jax.numpy as jnp
    ua, ub = jnp.asarray(u), jnp.asarray(u)
    worst, S = 0.0, float(np.max(np.abs(u)))
    changed = False
    for _ in range(steps):
        ua, ub = a(ua), b(ub)
        xa, xb = np.asarray(ua), np.asarray(ub)
        if not (np.all(np.isfinite(xa)) and np.all(np.isfinite(xb))):
            bus.skip(monitor, "non-finite")
            return
        S = max(S, float(np.max(np.abs(xa))))
        worst = max(worst, float(np.max(np.abs(xa - xb))))
        changed |= float(np.max(np.abs(xa - u))) > 1e-9 * S
    bus.judge(monitor, worst / S, TOL, sig, sample=info, witness=dict(info, diff=worst, S=S), nontrivial=changed)


def run_pair(case, bus, ex):
    rng = env.rng_for(*case["rs"])
    pair, D, N = case["pair"], case["D"], case["N"]
    if pair in ("allen_cahn", "swift_1d") and N < 8:
        N = 8 + (N % 2)          # cubic terms use the 1/2 rule: below N = 8 the retained band is only the mean and the nonlinearity would never act
    S_, Gn, R = ex.stepper, ex.stepper.generic, ex.stepper.reaction
    L = float(rng.choice([1.0, 2 * np.pi, 3.3, 0.6]))
    dt = float(10 ** rng.uniform(-3, -1.5))
    U = lambda lo, hi: float(rng.uniform(lo, hi))
    sc = (L / (2 * np.pi))
    nu, c, xi, zeta = U(0.01, 0.1) * sc ** 2, U(-2, 2) * sc, U(-1, 1) * 1e-2 * sc ** 3, U(1e-5, 1e-4) * sc ** 4
    b = U(0.3, 1.5) * float(rng.choice([-1.0, 1.0]))          # both signs of every nonlinear scale
    orders = [0, 1, 2, 3, 4]
    order = int(rng.choice(orders))
    sc_flag, cons = bool(rng.integers(0, 2)), bool(rng.integers(0, 2))
    info = dict(pair=pair, D=D, N=N, L=L, dt=dt)
    ldt = dt * (10 ** U(0, 2))     # linear steppers tolerate big steps
    if pair == "advection":
        a, g, C = S_.Advection(D, L, N, ldt, velocity=c), Gn.GeneralLinearStepper(D, L, N, ldt, linear_coefficients=(0.0, -c)), 1
    elif pair == "diffusion":
        a, g, C = S_.Diffusion(D, L, N, ldt, diffusivity=nu), Gn.GeneralLinearStepper(D, L, N, ldt, linear_coefficients=(0.0, 0.0, nu)), 1
    elif pair == "advection_diffusion":
        a, g, C = S_.AdvectionDiffusion(D, L, N, ldt, velocity=c, diffusivity=nu), Gn.GeneralLinearStepper(D, L, N, ldt, linear_coefficients=(0.0, -c, nu)), 1
    elif pair == "dispersion":
        a, g, C = S_.Dispersion(D, L, N, ldt, dispersivity=xi), Gn.GeneralLinearStepper(D, L, N, ldt, linear_coefficients=(0.0, 0.0, 0.0, xi)), 1
    elif pair == "hyper_diffusion":
        a, g, C = S_.HyperDiffusion(D, L, N, ldt, hyper_diffusivity=zeta), Gn.GeneralLinearStepper(D, L, N, ldt, linear_coefficients=(0.0, 0.0, 0.0, 0.0, -zeta)), 1
    elif pair == "burgers":
        a = S_.Burgers(D, L, N, dt, diffusivity=nu, convection_scale=b, single_channel=sc_flag, conservative=cons, order=order)
        g = Gn.GeneralConvectionStepper(D, L, N, dt, linear_coefficients=(0.0, 0.0, nu), convection_scale=b, single_channel=sc_flag, conservative=cons, order=order)
        C = 1 if sc_flag else D
    elif pair == "kdv":
        bb = -U(1, 6)
        a = S_.KortewegDeVries(D, L, N, dt, convection_scale=bb, diffusivity=nu, dispersivity=abs(xi), hyper_diffusivity=zeta, single_channel=sc_flag, conservative=cons, order=order)
        g = Gn.GeneralConvectionStepper(D, L, N, dt, linear_coefficients=(0.0, 0.0, nu, -abs(xi), -zeta), convection_scale=bb, single_channel=sc_flag, conservative=cons, order=order)
        C = 1 if sc_flag else D
    elif pair == "ksc":
        s2, s4 = U(0.5, 1.5) * 1e-2 * sc ** 2, U(0.5, 1.5) * 1e-4 * sc ** 4
        a = S_.KuramotoSivashinskyConservative(D, L, N, dt, convection_scale=b, second_order_scale=s2, fourth_order_scale=s4, single_channel=sc_flag, conservative=cons, order=order)
        g = Gn.GeneralConvectionStepper(D, L, N, dt, linear_coefficients=(0.0, 0.0, -s2, 0.0, -s4), convection_scale=b, single_channel=sc_flag, conservative=cons, order=order)
        C = 1 if sc_flag else D
    elif pair == "ks":
        s2, s4 = U(0.5, 1.5) * 1e-2 * sc ** 2, U(0.5, 1.5) * 1e-4 * sc ** 4
        a = S_.KuramotoSivashinsky(D, L, N, dt, gradient_norm_scale=b, second_order_scale=s2, fourth_order_scale=s4, order=order)
        g = Gn.GeneralGradientNormStepper(D, L, N, dt, linear_coefficients=(0.0, 0.0, -s2, 0.0, -s4), gradient_norm_scale=b, order=order)
        C = 1
    elif pair == "ns_vorticity":
        lam = -U(0, 0.3)
        a = S_.NavierStokesVorticity(D, L, N, dt, diffusivity=nu, vorticity_convection_scale=b, drag=lam, order=order)
        g = Gn.GeneralVorticityConvectionStepper(D, L, N, dt, vorticity_convection_scale=b, linear_coefficients=(lam / D, 0.0, nu), order=order)
        C = 1
    elif pair == "fisher":
        r = U(0.5, 2)
        if N % 2 == 0:
            nu = r / D          # relation: the zeroth- and second-order linear coefficients of the generic form coincide
        a = R.FisherKPP(D, L, N, dt, diffusivity=nu, reactivity=r, order=order)
        g = Gn.GeneralPolynomialStepper(D, L, N, dt, linear_coefficients=(r / D, 0.0, nu), polynomial_coefficients=(0.0, 0.0, -r), order=order)
        C = 1
    elif pair == "allen_cahn":
        c1, c3 = U(0.5, 1.5), -U(0.5, 1.5)
        a = R.AllenCahn(D, L, N, dt, diffusivity=nu, first_order_coefficient=c1, third_order_coefficient=c3, order=order)
        g = Gn.GeneralPolynomialStepper(D, L, N, dt, linear_coefficients=(c1 / D, 0.0, nu), polynomial_coefficients=(0.0, 0.0, 0.0, c3), dealiasing_fraction=1 / 2, order=order)
        C = 1
    elif pair == "swift_1d":
        r, k = U(0.3, 0.9), U(0.5, 1.2)
        pc = (0.0, 0.0, U(0.5, 1.5), -U(0.5, 1.5))
        a = R.SwiftHohenberg(1, L, N, dt, reactivity=r, critical_number=k, polynomial_coefficients=pc, order=order)
        g = Gn.GeneralPolynomialStepper(1, L, N, dt, linear_coefficients=(r - k ** 2, 0.0, -2 * k, 0.0, -1.0), polynomial_coefficients=pc, dealiasing_fraction=1 / 2, order=order)
        C = 1
    elif pair == "burgers_as_nonlinear":
        a = S_.Burgers(D, L, N, dt, diffusivity=nu, convection_scale=b, single_channel=True, conservative=True, order=order)
        g = Gn.GeneralNonlinearStepper(D, L, N, dt, linear_coefficients=(0.0, 0.0, nu), nonlinear_coefficients=(0.0, -b, 0.0), order=order)
        C = 1
    elif pair == "ks_as_nonlinear":
        s2, s4 = U(0.5, 1.5) * 1e-2 * sc ** 2, U(0.5, 1.5) * 1e-4 * sc ** 4
        a = S_.KuramotoSivashinsky(D, L, N, dt, gradient_norm_scale=b, second_order_scale=s2, fourth_order_scale=s4, order=order)
        g = Gn.GeneralNonlinearStepper(D, L, N, dt, linear_coefficients=(0.0, 0.0, -s2, 0.0, -s4), nonlinear_coefficients=(0.0, 0.0, -b), order=order)
        C = 1
    elif pair == "fisher_as_nonlinear":
        r = U(0.5, 2)
        a = R.FisherKPP(D, L, N, dt, diffusivity=nu, reactivity=r, order=order)
        g = Gn.GeneralNonlinearStepper(D, L, N, dt, linear_coefficients=(r / D, 0.0, nu), nonlinear_coefficients=(-r, 0.0, 0.0), order=order)
        C = 1
    elif pair == "kdv_as_nonlinear":
        bb = -U(1, 6)
        a = S_.KortewegDeVries(D, L, N, dt, convection_scale=bb, diffusivity=nu, dispersivity=abs(xi), hyper_diffusivity=zeta, single_channel=True, conservative=True, order=order)
        g = Gn.GeneralNonlinearStepper(D, L, N, dt, linear_coefficients=(0.0, 0.0, nu, -abs(xi), -zeta), nonlinear_coefficients=(0.0, -bb, 0.0), order=order)
        C = 1
    elif pair == "linear_as_convection":
        a = Gn.GeneralLinearStepper(D, L, N, dt, linear_coefficients=(0.0, -c, nu))
        g = Gn.GeneralConvectionStepper(D, L, N, dt, linear_coefficients=(0.0, -c, nu), convection_scale=0.0, single_channel=True, order=order)
        C = 1
    else:
        raise KeyError(pair)
    flags = (sc_flag, cons) if pair in ("burgers", "kdv", "ksc") else ()
    for kind in ("white", "smooth"):
        u = G.random_state(rng, kind, C, D, N, amp=0.4)
        compare(bus, "specific_vs_generic", a, g, u, (pair, flags, D, N % 2, order, kind), dict(info, order=order, flags=list(flags), state=kind))


def run_family(case, bus, ex):
    rng = env.rng_for(*case["rs"])
    fam, D, N = case["fam"], case["D"], case["N"]
    Gn = ex.stepper.generic
    U = lambda lo, hi: float(rng.uniform(lo, hi))
    L = float(rng.choice([1.0, 2 * np.pi, 3.3, 0.6, 10 ** U(-1, 1)]))
    dt = float(10 ** U(-3, -1.5))
    sc = L / (2 * np.pi)
    m = int(rng.integers(2, 5))
    a = [U(-0.3, 0.1), U(-1, 1) * sc, U(0.005, 0.05) * sc ** 2, U(-0.01, 0.01) * sc ** 3, -U(1e-5, 1e-3) * sc ** 4][: m + 1]
    # relations between coefficients that ordinary draws never produce: two equal non-zero entries, exact (repeated) zeros
    rel = (2 * case["rs"][4] + N + D) % 5
    if rel == 4:            # the configuration typed with Python ints: integer box, integer step, integer coefficients
        L, dt = int([5, 7, 10][N % 3]), 1
        sc = L / (2 * np.pi)
        a = [int(np.sign(x)) * (1 + int(abs(x) * 1e3) % 2) for x in a]
        if len(a) >= 3:
            a[2] = abs(a[2])
        if len(a) >= 5:
            a[4] = -abs(a[4])
    if rel == 1 and len(a) >= 3:
        a[0] = a[2]
    elif rel == 2 and len(a) >= 3:
        a[1] = a[2]
        if len(a) >= 5:
            a[3] = 0.0
    elif rel == 3:
        a[1] = 0.0
        a[0] = 0.0 if len(a) < 4 else a[0]
    order = int(rng.integers(0, 5))
    M = U(0.5, 3.0)
    sflag, cons = bool(rng.integers(0, 2)), bool(rng.integers(0, 2))
    ckw = {}
    if rng.uniform() < 0.3 and order > 0:        # documented contour options must pass through every interface unchanged
        Mc, rc_ = zoo.CONTOURS[int(rng.integers(0, len(zoo.CONTOURS)))]
        ckw = dict(num_circle_points=Mc, circle_radius=rc_)
    # ---- model-side conversions (documented formulas)
    alpha = [x * dt / L ** j for j, x in enumerate(a)]
    gamma = [alpha[0]] + [alpha[j] * N ** j * 2 ** (j - 1) * D for j in range(1, len(alpha))]
    s, t = U(0.1, 10), U(0.1, 10)
    L2, dt2 = s * L, t * dt
    a2 = [al * L2 ** j / dt2 for j, al in enumerate(alpha)]
    info = dict(family=fam, D=D, N=N, L=L, dt=dt, coefficients=a, order=order, s=s, t=t, maximum_absolute=M)
    C = 1
    extra_flag = []
    if fam == "linear":
        g = Gn.GeneralLinearStepper(D, L, N, dt, linear_coefficients=tuple(a))
        n = Gn.NormalizedLinearStepper(D, N, normalized_linear_coefficients=tuple(alpha))
        d = Gn.DifficultyLinearStepper(D, N, linear_difficulties=tuple(gamma))
        r = Gn.GeneralLinearStepper(D, L2, N, dt2, linear_coefficients=tuple(a2))
        extra = []
        jj = int(rng.integers(0, 4))
        dv = U(-3, 3) if jj != 2 else U(0.5, 5)
        al_s = [0.0] * jj + [dv if jj == 0 else dv / (N ** jj * 2 ** (jj - 1) * D)]
        extra.append(("simple", Gn.DifficultyLinearStepperSimple(D, N, difficulty=dv, order=jj), Gn.NormalizedLinearStepper(D, N, normalized_linear_coefficients=tuple(al_s))))
    elif fam == "convection":
        b1 = U(0.3, 1.5)
        beta = b1 * dt / L
        delta = beta * M * N * D
        kw = dict(single_channel=sflag, conservative=cons, order=order, **ckw)
        C = 1 if sflag else D
        g = Gn.GeneralConvectionStepper(D, L, N, dt, linear_coefficients=tuple(a), convection_scale=b1, **kw)
        n = Gn.NormalizedConvectionStepper(D, N, normalized_linear_coefficients=tuple(alpha), normalized_convection_scale=beta, **kw)
        d = Gn.DifficultyConvectionStepper(D, N, linear_difficulties=tuple(gamma), convection_difficulty=delta, maximum_absolute=M, **kw)
        r = Gn.GeneralConvectionStepper(D, L2, N, dt2, linear_coefficients=tuple(a2), convection_scale=beta * L2 / dt2, **kw)
        extra = []
        # every flag combination and a non-default dealiasing fraction must pass through all three interfaces unchanged
        for sf, co, frac in ((False, True, 2 / 3), (True, True, 2 / 3), (False, False, 2 / 3), (True, False, 2 / 3), (False, True, 1.0), (True, True, 0.5)):
            if (sf, co, frac) == (sflag, cons, 2 / 3):
                continue
            kw2 = dict(single_channel=sf, conservative=co, order=order, dealiasing_fraction=frac, **ckw)
            g2 = Gn.GeneralConvectionStepper(D, L, N, dt, linear_coefficients=tuple(a), convection_scale=b1, **kw2)
            n2 = Gn.NormalizedConvectionStepper(D, N, normalized_linear_coefficients=tuple(alpha), normalized_convection_scale=beta, **kw2)
            d2 = Gn.DifficultyConvectionStepper(D, N, linear_difficulties=tuple(gamma), convection_difficulty=delta, maximum_absolute=M, **kw2)
            extra_flag.append((f"sc={sf},cons={co},frac={frac:.2f}", 1 if sf else D, g2, n2, d2))
    elif fam == "gradient_norm":
        b2 = U(0.3, 1.5) * sc ** 2
        beta = b2 * dt / L ** 2
        delta = beta * M * N ** 2 * D
        g = Gn.GeneralGradientNormStepper(D, L, N, dt, linear_coefficients=tuple(a), gradient_norm_scale=b2, order=order, **ckw)
        n = Gn.NormalizedGradientNormStepper(D, N, normalized_linear_coefficients=tuple(alpha), normalized_gradient_norm_scale=beta, order=order, **ckw)
        d = Gn.DifficultyGradientNormStepper(D, N, linear_difficulties=tuple(gamma), gradient_norm_difficulty=delta, maximum_absolute=M, order=order, **ckw)
        r = Gn.GeneralGradientNormStepper(D, L2, N, dt2, linear_coefficients=tuple(a2), gradient_norm_scale=beta * L2 ** 2 / dt2, order=order, **ckw)
        extra = []
    elif fam == "polynomial":
        p = [U(-0.3, 0.3), U(-0.5, 0.5), -U(0.2, 1.0)]
        pn = [x * dt for x in p]
        g = Gn.GeneralPolynomialStepper(D, L, N, dt, linear_coefficients=tuple(a), polynomial_coefficients=tuple(p), order=order, **ckw)
        n = Gn.NormalizedPolynomialStepper(D, N, normalized_linear_coefficients=tuple(alpha), normalized_polynomial_coefficients=tuple(pn), order=order, **ckw)
        d = Gn.DifficultyPolynomialStepper(D, N, linear_difficulties=tuple(gamma), polynomial_difficulties=tuple(pn), order=order, **ckw)
        r = Gn.GeneralPolynomialStepper(D, L2, N, dt2, linear_coefficients=tuple(a2), polynomial_coefficients=tuple(x / dt2 for x in pn), order=order, **ckw)
        extra = []
    else:
        b = [U(-0.5, 0.5), -U(0.3, 1.0), U(-0.5, 0.5) * sc ** 2]
        bn = [b[0] * dt, b[1] * dt / L, b[2] * dt / L ** 2]
        bd = [bn[0], bn[1] * M * N * D, bn[2] * M * N ** 2 * D]
        g = Gn.GeneralNonlinearStepper(D, L, N, dt, linear_coefficients=tuple(a), nonlinear_coefficients=tuple(b), order=order, **ckw)
        n = Gn.NormalizedNonlinearStepper(D, N, normalized_linear_coefficients=tuple(alpha), normalized_nonlinear_coefficients=tuple(bn), order=order, **ckw)
        d = Gn.DifficultyNonlinearStepper(D, N, linear_difficulties=tuple(gamma), nonlinear_difficulties=tuple(bd), maximum_absolute=M, order=order, **ckw)
        r = Gn.GeneralNonlinearStepper(D, L2, N, dt2, linear_coefficients=tuple(a2), nonlinear_coefficients=(bn[0] / dt2, bn[1] * L2 / dt2, bn[2] * L2 ** 2 / dt2), order=order, **ckw)
        extra = []
    flags = (sflag, cons) if fam == "convection" else ()
    for kind in ("white", "smooth"):
        u = G.random_state(rng, kind, C, D, N, amp=0.4)
        sig = (fam, flags, D, N % 2, order if fam != "linear" else None, kind)
        compare(bus, "general_vs_normalized", g, n, u, sig, dict(info, state=kind))
        compare(bus, "normalized_vs_difficulty", n, d, u, sig, dict(info, state=kind))
        compare(bus, "rescaling_invariance", g, r, u, sig, dict(info, state=kind))
        for label, x, y in extra:
            compare(bus, "normalized_vs_difficulty", x, y, u, sig + (label,), dict(info, state=kind, variant=label))
        for label, C2, g2, n2, d2 in extra_flag:
            u2 = G.random_state(rng, kind, C2, D, N, amp=0.4)
            compare(bus, "general_vs_normalized", g2, n2, u2, sig + (label,), dict(info, state=kind, variant=label))
            compare(bus, "normalized_vs_difficulty", n2, d2, u2, sig + (label,), dict(info, state=kind, variant=label))


def run_formulas(case, bus, ex):
    rng = env.rng_for(*case["rs"])
    Gn = ex.stepper.generic
    from exponax.stepper.generic import _utils as UT
    U = lambda lo, hi: float(rng.uniform(lo, hi))
    L, dt, M = float(10 ** U(-2, 2)), float(10 ** U(-4, 1)), U(0.2, 5)
    D, N = int(rng.integers(1, 4)), int(rng.integers(4, 200))
    co = [U(-3, 3) for _ in range(int(rng.integers(1, 7)))]
    rel = lambda got, ref: float(np.max(np.abs(np.asarray(got, float) - np.asarray(ref, float)) / (np.abs(np.asarray(ref, float)) + 1e-300)))
    info = dict(L=L, dt=dt, D=D, N=N, M=M, coefficients=co)

    def j(name, got, ref, kind):
        ok_len = np.shape(got) == np.shape(ref)
        bus.judge("conversion_formulas", rel(got, ref) if ok_len else np.inf, 1e-13, (name, kind), sample=dict(info, function=name), witness=dict(info, function=name, got=np.asarray(got).tolist(), ref=np.asarray(ref).tolist()))
    al = [c * dt / L ** i for i, c in enumerate(co)]
    j("normalize_coefficients", Gn.normalize_coefficients(tuple(co), domain_extent=L, dt=dt), al, "formula")
    j("denormalize_coefficients", Gn.denormalize_coefficients(tuple(al), domain_extent=L, dt=dt), co, "inverse")
    gm = [al[0]] + [al[i] * N ** i * 2 ** (i - 1) * D for i in range(1, len(al))]
    j("reduce_normalized_coefficients_to_difficulty", Gn.reduce_normalized_coefficients_to_difficulty(tuple(al), num_spatial_dims=D, num_points=N), gm, "formula")
    j("extract_normalized_coefficients_from_difficulty", Gn.extract_normalized_coefficients_from_difficulty(tuple(gm), num_spatial_dims=D, num_points=N), al, "inverse")
    b1, b2 = U(-3, 3), U(-3, 3)
    j("normalize_convection_scale", Gn.normalize_convection_scale(b1, domain_extent=L, dt=dt), b1 * dt / L, "formula")
    j("denormalize_convection_scale", Gn.denormalize_convection_scale(b1 * dt / L, domain_extent=L, dt=dt), b1, "inverse")
    j("normalize_gradient_norm_scale", Gn.normalize_gradient_norm_scale(b2, domain_extent=L, dt=dt), b2 * dt / L ** 2, "formula")
    j("denormalize_gradient_norm_scale", Gn.denormalize_gradient_norm_scale(b2 * dt / L ** 2, domain_extent=L, dt=dt), b2, "inverse")
    j("normalize_polynomial_scales", Gn.normalize_polynomial_scales(tuple(co), dt=dt), [c * dt for c in co], "formula")
    j("denormalize_polynomial_scales", Gn.denormalize_polynomial_scales(tuple(c * dt for c in co), dt=dt), co, "inverse")
    j("reduce_normalized_convection_scale_to_difficulty", Gn.reduce_normalized_convection_scale_to_difficulty(b1, num_spatial_dims=D, num_points=N, maximum_absolute=M), b1 * M * N * D, "formula")
    j("extract_normalized_convection_scale_from_difficulty", Gn.extract_normalized_convection_scale_from_difficulty(b1 * M * N * D, num_spatial_dims=D, num_points=N, maximum_absolute=M), b1, "inverse")
    j("reduce_normalized_gradient_norm_scale_to_difficulty", Gn.reduce_normalized_gradient_norm_scale_to_difficulty(b2, num_spatial_dims=D, num_points=N, maximum_absolute=M), b2 * M * N ** 2 * D, "formula")
    j("extract_normalized_gradient_norm_scale_from_difficulty", Gn.extract_normalized_gradient_norm_scale_from_difficulty(b2 * M * N ** 2 * D, num_spatial_dims=D, num_points=N, maximum_absolute=M), b2, "inverse")
    # deprecated alias of the simple difficulty stepper must build the same stepper
    import warnings, jax.numpy as jnp
    with warnings.catch_warnings():
        warnings.simplefilter("ignore")
        o_, dv_ = int(rng.integers(0, 4)), U(-2, 2)
        a_ = Gn.DiffultyLinearStepperSimple(1, 16, difficulty=dv_, order=o_)
        b_ = Gn.DifficultyLinearStepperSimple(1, 16, difficulty=dv_, order=o_)
        x_ = jnp.asarray(rng.normal(size=(1, 16)))
        bus.judge("conversion_formulas", float(np.max(np.abs(np.asarray(a_(x_)) - np.asarray(b_(x_))))), 0.0, ("DiffultyLinearStepperSimple alias", "alias"), witness=dict(info, function="deprecated alias"))
    nn = (U(-1, 1), b1, b2)
    nd = (nn[0], b1 * M * N * D, b2 * M * N ** 2 * D)
    j("reduce_normalized_nonlinear_scales_to_difficulty", UT.reduce_normalized_nonlinear_scales_to_difficulty(nn, num_spatial_dims=D, num_points=N, maximum_absolute=M), nd, "formula")
    j("extract_normalized_nonlinear_scales_from_difficulty", UT.extract_normalized_nonlinear_scales_from_difficulty(nd, num_spatial_dims=D, num_points=N, maximum_absolute=M), nn, "inverse")


    # history: the conversions are pure - calling them again with the SAME sequence object (a list a caller keeps around to set up several
    # resolutions) gives the same values and leaves the argument untouched; two steppers built from one shared list describe the same dynamics
    def again(name, fn, arg, ref):
        lst = list(arg)
        keep = list(lst)
        for call in (1, 2, 3):
            j(name, fn(lst), ref, f"list argument, call {call}")
        bus.judge("conversion_formulas", 0.0 if lst == keep else 1.0, 0.5, (name, "argument left untouched"), witness=dict(info, function=name, argument_before=keep, argument_after=lst))
    again("normalize_coefficients", lambda x: Gn.normalize_coefficients(x, domain_extent=L, dt=dt), co, al)
    again("denormalize_coefficients", lambda x: Gn.denormalize_coefficients(x, domain_extent=L, dt=dt), al, co)
    again("reduce_normalized_coefficients_to_difficulty", lambda x: Gn.reduce_normalized_coefficients_to_difficulty(x, num_spatial_dims=D, num_points=N), al, gm)
    again("extract_normalized_coefficients_from_difficulty", lambda x: Gn.extract_normalized_coefficients_from_difficulty(x, num_spatial_dims=D, num_points=N), gm, al)
    again("normalize_polynomial_scales", lambda x: Gn.normalize_polynomial_scales(x, dt=dt), co, [c * dt for c in co])
    again("denormalize_polynomial_scales", lambda x: Gn.denormalize_polynomial_scales(x, dt=dt), [c * dt for c in co], co)
    again("reduce_normalized_nonlinear_scales_to_difficulty", lambda x: UT.reduce_normalized_nonlinear_scales_to_difficulty(x, num_spatial_dims=D, num_points=N, maximum_absolute=M), nn, nd)
    again("extract_normalized_nonlinear_scales_from_difficulty", lambda x: UT.extract_normalized_nonlinear_scales_from_difficulty(x, num_spatial_dims=D, num_points=N, maximum_absolute=M), nd, nn)
    Ds, Ns_ = int(rng.integers(1, 3)), int(rng.integers(8, 14))
    shared = [U(-0.2, 0.0), U(-1, 1), U(0.5, 4)]
    shared_before = list(shared)
    x_ = jnp.asarray(G.random_state(rng, "white", 1, Ds, Ns_, amp=0.4))
    ref_al = [shared[0]] + [shared[i] / (Ns_ ** i * 2 ** (i - 1) * Ds) for i in (1, 2)]
    want = np.asarray(Gn.NormalizedLinearStepper(Ds, Ns_, normalized_linear_coefficients=tuple(ref_al))(x_))
    for build_no in (1, 2):
        got = np.asarray(Gn.DifficultyLinearStepper(Ds, Ns_, linear_difficulties=shared)(x_))
        bus.judge("normalized_vs_difficulty", float(np.max(np.abs(got - want))) / float(np.max(np.abs(x_))), TOL, ("shared list", f"build {build_no}"),
                  witness=dict(info, function="DifficultyLinearStepper built from a list the caller reuses", build=build_no, D=Ds, N=Ns_, difficulties=shared_before, list_after=list(shared)))
    got = np.asarray(Gn.DifficultyConvectionStepper(Ds, Ns_, linear_difficulties=shared, convection_difficulty=0.0)(x_)) if Ds == 1 else None
    if got is not None:
        bus.judge("normalized_vs_difficulty", float(np.max(np.abs(got - want))) / float(np.max(np.abs(x_))), TOL, ("shared list", "build 3, other class"),
                  witness=dict(info, function="DifficultyConvectionStepper built from the same list", D=Ds, N=Ns_, difficulties=shared_before, list_after=list(shared)))


def run_case(case, bus, ex):
    return {"pair": run_pair, "family": run_family, "formulas": run_formulas}[case["kind"]](case, bus, ex)
