"""C18  Initial-condition generators honour their documented contract.

Contract monitors per generator and option set: shape_channels, finite, deterministic, normalisation (zero mean / unit std / unit max), offset (mean == the
offset drawn from the same key split), clamp_limits, scale_factor, cutoff (spectrum confined to |k|_inf <= cutoff, model's full FFT), shaping (power law of
GaussianRandomField / diffusion kernel of DiffusedNoise mode by mode against the white noise of the same key), fun_equals_sampled, multi_channel (documented key
split), rejects_invalid.
"""
import numpy as np
from rv import env, iczoo
from rv.refmodel import grid as G

PROP = "C18"
RULE = ("cases = every public generator x option set x D x N odd/even x keys, plus wrapper nestings (Scaled o Clamping o ..., MultiChannel); one event per contract clause that applies; "
        "distinct = (monitor, generator, options, D, N parity); non-trivial = a clause that constrains the output (e.g. offset != 0, cutoff < Nyquist)")
REQUIRED = {"shape_channels": {"quick": 100, "thorough": 600}, "finite": {"quick": 100, "thorough": 600}, "deterministic": {"quick": 100, "thorough": 600},
            "normalisation": {"quick": 60, "thorough": 400}, "offset": {"quick": 10, "thorough": 60}, "clamp_limits": {"quick": 10, "thorough": 60}, "scale_factor": {"quick": 10, "thorough": 60},
            "cutoff": {"quick": 10, "thorough": 80}, "shaping": {"quick": 10, "thorough": 80}, "fun_equals_sampled": {"quick": 20, "thorough": 150},
            "multi_channel": {"quick": 6, "thorough": 40}, "rejects_invalid": {"quick": 10, "thorough": 30}}
ASSUMPTIONS = ["jax.random is trusted to recompute the documented key splits", "float64"]
TIMEOUT = {"quick": 2400, "thorough": 7200}
EPS = np.finfo(float).eps


def all_specs(D):
    base = iczoo.base_specs(D)
    wrap = [dict(name="Scaled", inner=base[0], scale=2.5), dict(name="Scaled", inner=base[3], scale=-0.5), dict(name="Clamping", inner=base[1], limits=[-0.5, 1.5]),
            dict(name="Clamping", inner=base[-3], limits=[0.2, 1.7]), dict(name="Scaled", inner=dict(name="Clamping", inner=base[2], limits=[0.0, 1.0]), scale=3.0),
            dict(name="MultiChannel", inner=[base[0], base[2], base[-2]]), dict(name="MultiChannel", inner=[base[3], base[3], dict(name="Scaled", inner=base[-4], scale=2.0)]),
            # function-form sub-generators only (3 to 5 channels): the function form of the wrapper must build every channel
            dict(name="MultiChannel", inner=[dict(name="RandomDiscontinuities", kw=dict(num_discontinuities=2, zero_mean=True)), dict(name="RandomGaussianBlobs", kw=dict(num_blobs=2)),
                                            dict(name="RandomGaussianBlobs", kw=dict(num_blobs=1, one_complement=True))]),
            dict(name="MultiChannel", inner=[dict(name="RandomGaussianBlobs", kw=dict(num_blobs=1)), dict(name="Scaled", inner=dict(name="RandomDiscontinuities", kw=dict(num_discontinuities=3)), scale=-1.5),
                                            dict(name="RandomDiscontinuities", kw=dict(num_discontinuities=1)), dict(name="RandomGaussianBlobs", kw=dict(num_blobs=3)),
                                            dict(name="RandomDiscontinuities", kw=dict(num_discontinuities=2, zero_mean=True, max_one=True))])]
    return base + wrap


def cases(tier, seed):
    out = []
    Ns = {1: [16, 17], 2: [8, 9], 3: [5, 6]} if tier == "quick" else {1: [9, 16, 33, 64], 2: [6, 9, 12, 16], 3: [5, 6, 8]}
    keys = (0, 1) if tier == "quick" else tuple(range(8))
    for D in (1, 2, 3):
        for i, s in enumerate(all_specs(D)):
            extra_N = [2 * s["kw"]["cutoff"], 2 * s["kw"]["cutoff"] - 1] if (s.get("name") == "RandomSineWaves1d") else []      # under-resolved grids: normalisation must still hold on the samples
            for N in Ns[D] + extra_N:
                out.append(dict(kind="gen", D=D, N=N, spec=s, keys=list(keys), rs=[seed, D, i, N], cost=N ** D / 200 + 0.5))
    for D in (1, 2, 3):
        out.append(dict(kind="invalid", D=D, rs=[seed, D, 77], cost=0.3))
    # fixed witnesses of known finding F11 (so a change of its status is noticed on every run): on a coarse grid no discontinuity box contains a grid point
    out.append(dict(kind="gen", D=3, N=4, spec=dict(name="RandomDiscontinuities", kw=dict(num_discontinuities=3, zero_mean=True, std_one=True)), keys=[5], fixed_key=True, rs=[seed, 3, 0, 4], cost=0.5))
    out.append(dict(kind="gen", D=3, N=4, spec=dict(name="RandomDiscontinuities", kw=dict(num_discontinuities=3, zero_mean=True, max_one=True)), keys=[5], fixed_key=True, rs=[seed, 3, 0, 4], cost=0.5))
    return out


def label(spec):
    if "inner" in spec:
        inner = spec["inner"] if isinstance(spec["inner"], list) else [spec["inner"]]
        return spec["name"] + "(" + ",".join(label(s) for s in inner) + ")"
    flags = ",".join(k for k, v in sorted(spec["kw"].items()) if v is True) 
    extra = "+offset" if "offset_range" in spec["kw"] else ""
    return spec["name"] + ("[" + flags + "]" if flags else "") + extra


def nan_explained_by_constant_draw(ex, D, N, spec, key, u):
    """True iff every non-finite channel of u comes from a leaf generator with std_one / max_one whose un-normalised twin (same key, flags off) is a finite
    constant field.  Wrappers are unfolded with their documented key handling (MultiChannel: jax.random.split(key, n); Scaled / Clamping: same key)."""
    import jax
    n = spec["name"]
    if n == "MultiChannel":
        keys = jax.random.split(key, len(spec["inner"]))
        c0 = 0
        for sub, k in zip(spec["inner"], keys):
            c1 = c0 + iczoo.n_channels(sub)
            part = u[c0:c1]
            if not np.all(np.isfinite(part)) and not nan_explained_by_constant_draw(ex, D, N, sub, k, part):
                return False
            c0 = c1
        return True
    if n in ("Scaled", "Clamping"):
        return nan_explained_by_constant_draw(ex, D, N, spec["inner"], key, u)
    kw = spec["kw"]
    if not (kw.get("std_one") or kw.get("max_one")):
        return False
    twin = dict(name=n, kw={k_: v_ for k_, v_ in kw.items() if k_ not in ("std_one", "max_one")})
    raw = np.asarray(iczoo.build(ex, D, twin)(N, key=key))
    return bool(np.all(np.isfinite(raw)) and float(np.max(raw) - np.min(raw)) <= 1e-14 * (1 + float(np.max(np.abs(raw)))))


def run_gen(case, bus, ex):
    import jax, jax.numpy as jnp
    D, N, spec = case["D"], case["N"], case["spec"]
    gen = iczoo.build(ex, D, spec)
    name = label(spec)
    sig = (name, D, N % 2)
    info = dict(generator=spec, D=D, N=N)
    L = iczoo.domain_extent(spec)
    Cexp = iczoo.n_channels(spec)
    outs = {}
    for ki in case["keys"]:
        key = jax.random.PRNGKey(ki if case.get("fixed_key") else 1000 * case["rs"][2] + ki)
        u = np.asarray(gen(N, key=key))
        bus.tap("generator.__call__")
        outs[ki] = u
        winfo = dict(info, key=ki)
        ok_shape = u.shape == (Cexp,) + (N,) * D
        bus.judge("shape_channels", 0.0 if ok_shape else 1.0, 0.5, sig, sample=dict(info, shape=list(u.shape)), witness=dict(winfo, shape=list(u.shape), expected=[Cexp] + [N] * D),
                  msg="" if ok_shape else f"shape {u.shape}, expected {(Cexp,) + (N,) * D}")
        if not np.all(np.isfinite(u)) and nan_explained_by_constant_draw(ex, D, N, spec, key, u):
            # the property says "finite", so this is reported - as known finding F11 (a constant draw normalised to unit std / unit max is 0/0), also through wrappers
            bus.flag("finite", "non-finite output: unit-std / unit-max normalisation of a constant draw", sig + ("constant draw",), witness=dict(winfo, degenerate_constant_draw=True))
            continue
        bus.judge("finite", 0.0 if np.all(np.isfinite(u)) else 1.0, 0.5, sig, witness=winfo)
        u2 = np.asarray(gen(N, key=key))
        bus.judge("deterministic", 0.0 if np.array_equal(u, u2, equal_nan=True) else 1.0, 0.5, sig + ("same key",), witness=winfo)
        if not ok_shape or not np.all(np.isfinite(u)):
            continue
        kw = spec.get("kw", {})
        n = spec["name"]
        tolm = 64 * EPS * (1 + np.log2(N ** D))
        amp = float(np.max(np.abs(u))) + 1e-300
        # ---- normalisation flags of the base generators
        if n in ("RandomTruncatedFourierSeries", "GaussianRandomField", "DiffusedNoise", "RandomDiscontinuities", "RandomSineWaves1d"):
            zero_mean = kw.get("zero_mean", n not in ("RandomDiscontinuities",)) if n not in ("RandomTruncatedFourierSeries", "RandomSineWaves1d") else ("offset_range" not in kw)
            if n == "RandomSineWaves1d":
                zero_mean = False if "offset_range" in kw else None        # sines have zero mean on the grid only if resolved; not a documented flag
            if kw.get("std_one"):
                bus.judge("normalisation", abs(float(np.std(u)) - 1.0), tolm * 4, sig + ("std_one",), sample=dict(info, clause="std == 1"), witness=dict(winfo, clause="std == 1", std=float(np.std(u))))
            if kw.get("max_one"):
                bus.judge("normalisation", abs(float(np.max(np.abs(u))) - 1.0), tolm * 4, sig + ("max_one",), sample=dict(info, clause="max|u| == 1"), witness=dict(winfo, clause="max|u| == 1", max=float(np.max(np.abs(u)))))
            if zero_mean:
                bus.judge("normalisation", abs(float(np.mean(u))) / amp, tolm * 4, sig + ("zero_mean",), witness=dict(winfo, clause="mean == 0", mean=float(np.mean(u))))
        # ---- normalisation against the un-normalised twin of the same key: u == raw / std(raw)  resp.  raw / max|raw|, elementwise (offsets and zero-mean settings kept)
        if "inner" not in spec and (kw.get("std_one") or kw.get("max_one")):
            twin = dict(name=n, kw={k: v for k, v in kw.items() if k not in ("std_one", "max_one")})
            raw = np.asarray(iczoo.build(ex, D, twin)(N, key=key)).astype(np.float64)
            if np.all(np.isfinite(raw)) and float(np.max(raw) - np.min(raw)) > 1e-12 * (1 + float(np.max(np.abs(raw)))):
                expect = raw / (np.std(raw) if kw.get("std_one") else np.max(np.abs(raw)))
                bus.judge("normalisation", float(np.max(np.abs(u - expect))) / (float(np.max(np.abs(expect))) + 1e-300), tolm * 8, sig + ("twin",),
                          sample=dict(info, clause="u == normalised un-normalised twin"), witness=dict(winfo, clause="u == raw/std or raw/max of the same draw", maxdev=float(np.max(np.abs(u - expect)))))
        # ---- requested offset: mean equals the offset drawn from the documented key split
        if n == "RandomTruncatedFourierSeries" and "offset_range" in kw and not kw.get("max_one") and not kw.get("std_one"):
            _, offset_key = jax.random.split(key)
            off = float(jax.random.uniform(offset_key, shape=(1,), minval=kw["offset_range"][0], maxval=kw["offset_range"][1])[0])
            bus.judge("offset", abs(float(np.mean(u)) - off) / max(1.0, abs(off)), tolm * 8, sig, sample=dict(info, drawn_offset=off, mean=float(np.mean(u))),
                      witness=dict(winfo, drawn_offset=off, mean=float(np.mean(u)), ratio=float(np.mean(u)) / off if off else None, N_pow_D=N ** D), nontrivial=abs(off) > 0)
        if n == "RandomSineWaves1d" and "offset_range" in kw and not kw.get("max_one"):
            _, _, offset_key = jax.random.split(key, 3)
            off = float(jax.random.uniform(offset_key, shape=(), minval=kw["offset_range"][0], maxval=kw["offset_range"][1]))
            if 2 * kw.get("cutoff", 5) < N:
                bus.judge("offset", abs(float(np.mean(u)) - off) / max(1.0, abs(off)), tolm * 8, sig, sample=dict(info, drawn_offset=off, mean=float(np.mean(u))), witness=dict(winfo, drawn_offset=off, mean=float(np.mean(u))))
        # ---- band limit
        if n == "RandomTruncatedFourierSeries":
            uh = np.abs(G.fftn(u, D))[0]
            outside = np.any(np.abs(G.kint_full(D, N)) > kw.get("cutoff", 5), axis=0)
            if outside.any():
                bus.judge("cutoff", float(np.max(uh[outside])) / float(np.max(uh)), tolm * 4, sig, sample=dict(info, cutoff=kw.get("cutoff", 5)), witness=dict(winfo, cutoff=kw.get("cutoff", 5)))
            else:
                bus.outside("cutoff", "cutoff beyond Nyquist")
        if n == "RandomSineWaves1d" and 2 * kw.get("cutoff", 5) < N:
            uh = np.abs(np.fft.fft(u[0]))
            outside = np.abs(G.kint_full(1, N)[0]) > kw.get("cutoff", 5)
            if outside.any():
                bus.judge("cutoff", float(np.max(uh[outside])) / float(np.max(uh)), tolm * 4, sig, witness=dict(winfo, cutoff=kw.get("cutoff", 5)))
        # ---- spectral shaping against the white noise of the same key
        if n in ("GaussianRandomField", "DiffusedNoise") and not kw.get("std_one") and not kw.get("max_one"):
            white = np.asarray(ex.ic.WhiteNoise(D)(N, key=key))
            wh, gh = G.fftn(white, D)[0], G.fftn(u, D)[0]
            kk = np.sqrt((G.kint_full(D, N).astype(float) ** 2).sum(0)) * (2 * np.pi / L)
            with np.errstate(divide="ignore"):
                shape_fn = np.where(kk == 0, 1.0, kk ** (-kw.get("powerlaw_exponent", 3.0) / 2)) if n == "GaussianRandomField" else np.exp(-kw.get("intensity", 0.001) * kk ** 2)
            m = (kk > 0) & ~G.nyquist_mask(G.kint_full(D, N), N)
            # absolute accuracy relative to the largest white-noise coefficient everywhere, relative accuracy of the shaping factor where it is not tiny
            dev = np.abs(np.abs(gh[m]) - np.abs(wh[m]) * shape_fn[m]) / np.max(np.abs(wh))
            err = float(np.max(dev / (shape_fn[m] + 1e-3)))
            if kw.get("zero_mean", True):
                err = max(err, abs(gh[(0,) * D]) / np.max(np.abs(wh)))
            else:
                err = max(err, abs(abs(gh[(0,) * D]) - abs(wh[(0,) * D])) / np.max(np.abs(wh)))
            bus.judge("shaping", err, tolm * 64, sig, sample=dict(info, law="|k|^(-p/2)" if n == "GaussianRandomField" else "exp(-nu k^2)"), witness=dict(winfo, err=err))
        if n == "WhiteNoise":
            ref = kw.get("std", 1.0) * np.asarray(jax.random.normal(key, shape=(1,) + (N,) * D))
            bus.judge("shaping", float(np.max(np.abs(u - ref))), 1e-14, sig, witness=winfo)
        if n == "RandomGaussianBlobs":
            ok = np.all(u > -1e-15) and np.all(u < 1 + 1e-15)
            bus.judge("normalisation", 0.0 if ok else 1.0, 0.5, sig + ("range(0,1)",), witness=winfo)
            if kw.get("num_blobs", 1) == 1:
                # documented options of a single blob, implementation-independently: log(blob) is an exact separable quadratic in x whose centre lies in
                # position_range * L and whose variances lie in variance_range * L (least-squares fit on the grid; the blob is NOT periodised)
                f = (1.0 - u[0]) if kw.get("one_complement") else u[0]
                X = G.grid(D, L, N)
                comp = bool(kw.get("one_complement"))
                sel = f > (1e-4 if comp else 1e-200)          # 1 - (1 - blob) has lost its digits in the tails
                vr0 = kw.get("variance_range", (0.005, 0.01))[0]
                if sel.sum() >= 4 * (2 * D + 1) and L / N <= np.sqrt(vr0 * L):          # the grid must resolve the narrowest admissible blob, otherwise the fit is meaningless
                    A_ = np.stack([np.ones(sel.sum())] + [X[d][sel] for d in range(D)] + [X[d][sel] ** 2 for d in range(D)], axis=1)
                    coef, *_ = np.linalg.lstsq(A_, np.log(f[sel]), rcond=None)
                    resid = float(np.max(np.abs(A_ @ coef - np.log(f[sel]))))
                    var = -0.5 / coef[1 + D:]
                    pos = coef[1:1 + D] * var
                    pr, vr = kw.get("position_range", (0.4, 0.6)), kw.get("variance_range", (0.005, 0.01))
                    inside = bool(np.all(pos >= pr[0] * L - 1e-9) and np.all(pos <= pr[1] * L + 1e-9) and np.all(var >= vr[0] * L - 1e-12) and np.all(var <= vr[1] * L + 1e-12))
                    scale_log = float(np.max(np.abs(np.log(f[sel])))) + 1.0
                    bus.judge("shaping", max(resid / scale_log, 0.0 if inside else 1.0), 1e-7 if comp else 1e-9, sig + ("gaussian blob",), sample=dict(info, centre=pos.tolist(), variances=var.tolist()),
                              witness=dict(winfo, centre=pos.tolist(), variances=var.tolist(), residual=resid, position_range=list(pr), variance_range=list(vr), L=L))
        # ---- wrappers
        if n == "Clamping":
            lo, hi = spec["limits"]
            e = max(abs(float(np.min(u)) - lo), abs(float(np.max(u)) - hi)) / max(1.0, abs(hi - lo))
            inside = np.all(u >= lo - 1e-12) and np.all(u <= hi + 1e-12)
            bus.judge("clamp_limits", e if inside else 1.0, 32 * EPS, sig, sample=dict(info, min=float(np.min(u)), max=float(np.max(u))), witness=dict(winfo, min=float(np.min(u)), max=float(np.max(u)), limits=[lo, hi]))
        if n == "Scaled":
            inner = np.asarray(iczoo.build(ex, D, spec["inner"])(N, key=key))
            bus.judge("scale_factor", float(np.max(np.abs(u - spec["scale"] * inner))) / amp, 8 * EPS, sig, sample=dict(info, scale=spec["scale"]), witness=winfo)
        if n == "MultiChannel":
            ks = jax.random.split(key, len(spec["inner"]))
            ref = np.concatenate([np.asarray(iczoo.build(ex, D, s)(N, key=k)) for s, k in zip(spec["inner"], ks)], axis=0)
            ok = ref.shape == u.shape
            bus.judge("multi_channel", float(np.max(np.abs(u - ref))) / amp if ok else np.inf, 8 * EPS, sig, sample=dict(info, channels=u.shape[0]), witness=winfo)
        # ---- function form == sampled form of the same draw
        if iczoo.has_fun_form(spec):
            fun = gen.gen_ic_fun(key=key)
            grid = ex.make_grid(D, L, N)
            v = np.asarray(fun(grid))
            ok = v.shape == u.shape
            bus.judge("fun_equals_sampled", float(np.max(np.abs(v - u))) / amp if ok else np.inf, 8 * EPS, sig, sample=info, witness=dict(winfo, shapes=[list(v.shape), list(u.shape)]))
    ks = sorted(outs)
    if len(ks) >= 2 and outs[ks[0]].shape == outs[ks[1]].shape:
        differ = not np.array_equal(outs[ks[0]], outs[ks[1]])
        bus.judge("deterministic", 0.0 if differ else 1.0, 0.5, sig + ("different keys differ",), witness=dict(info, keys=ks[:2]))


def invalid_trials(ex, D):
    """Documented-invalid option combinations of the IC generators: (label, thunk that must raise ValueError)."""
    ic = ex.ic
    trials = [("TFS zero_mean False + std_one", lambda: ic.RandomTruncatedFourierSeries(D, offset_range=(0.5, 1.0), std_one=True)),
              ("TFS std_one + max_one", lambda: ic.RandomTruncatedFourierSeries(D, std_one=True, max_one=True)),
              ("GRF zero_mean False + std_one", lambda: ic.GaussianRandomField(D, zero_mean=False, std_one=True)),
              ("GRF std_one + max_one", lambda: ic.GaussianRandomField(D, std_one=True, max_one=True)),
              ("DiffusedNoise zero_mean False + std_one", lambda: ic.DiffusedNoise(D, zero_mean=False, std_one=True)),
              ("DiffusedNoise std_one + max_one", lambda: ic.DiffusedNoise(D, std_one=True, max_one=True)),
              ("RandomDiscontinuities zero_mean False + std_one", lambda: ic.RandomDiscontinuities(D, zero_mean=False, std_one=True)),
              ("RandomDiscontinuities std_one + max_one", lambda: ic.RandomDiscontinuities(D, zero_mean=True, std_one=True, max_one=True)),
              ("Discontinuities std_one + max_one", lambda: ic.Discontinuities((), std_one=True, max_one=True)),
              ("SineWaves1d offset + std_one", lambda: ic.SineWaves1d(1.0, (1.0,), (1,), (0.0,), offset=0.5, std_one=True)),
              ("SineWaves1d integer offset + std_one", lambda: ic.SineWaves1d(1.0, (1.0,), (1,), (0.0,), offset=1, std_one=True)),
              ("SineWaves1d negative integer offset + std_one", lambda: ic.SineWaves1d(2.0, (1.0, 0.5), (1, 2), (0.0, 0.3), offset=-2, std_one=True)),
              ("SineWaves1d std_one + max_one", lambda: ic.SineWaves1d(1.0, (1.0,), (1,), (0.0,), std_one=True, max_one=True)),
              ("SineWaves1d length mismatch", lambda: ic.SineWaves1d(1.0, (1.0, 2.0), (1,), (0.0,))),
              ("RandomSineWaves1d offset + std_one", lambda: ic.RandomSineWaves1d(1, offset_range=(0.5, 1.0), std_one=True)),
              ("RandomSineWaves1d std_one + max_one", lambda: ic.RandomSineWaves1d(1, std_one=True, max_one=True))]
    # every shape of a non-zero offset range: one endpoint zero, symmetric about zero, degenerate, integer-typed
    for r in ((0.0, 1.0), (-2.0, 0.0), (-1.0, 1.0), (0.5, 0.5), (0, 1), (-1, 0)):
        trials.append((f"TFS offset_range={r} + std_one", lambda r=r: ic.RandomTruncatedFourierSeries(D, offset_range=r, std_one=True)))
        trials.append((f"RandomSineWaves1d offset_range={r} + std_one", lambda r=r: ic.RandomSineWaves1d(1, offset_range=r, std_one=True)))
    if D > 1:
        trials.append(("RandomSineWaves1d in D>1", lambda: ic.RandomSineWaves1d(D)))
    return trials


def run_invalid(case, bus, ex):
    D = case["D"]
    for lab, fn in invalid_trials(ex, D):
        try:
            fn()
            bus.flag("rejects_invalid", f"{lab}: accepted", (lab, D), witness=dict(what=lab, D=D))
        except ValueError:
            bus.ok("rejects_invalid", (lab, D), sample=dict(what=lab, D=D))
        except Exception as e:  # noqa: BLE001
            bus.flag("rejects_invalid", f"{lab}: raised {type(e).__name__} instead of ValueError", (lab, D), witness=dict(what=lab, D=D))


def run_case(case, bus, ex):
    return {"gen": run_gen, "invalid": run_invalid}[case["kind"]](case, bus, ex)


def classify(v):
    w = v.get("witness") or {}
    g = w.get("generator") or {}

    def involves(spec, nm):
        if spec.get("name") == nm:
            return True
        inner = spec.get("inner")
        if isinstance(inner, dict):
            return involves(inner, nm)
        if isinstance(inner, list):
            return any(involves(s, nm) for s in inner)
        return False
    if v["monitor"] == "finite" and w.get("degenerate_constant_draw"):
        return "F11-normalisation-of-constant-draw-nan"
    if v["monitor"] == "offset" and g.get("name") == "RandomTruncatedFourierSeries" and w.get("ratio") is not None and abs(w["ratio"] * w["N_pow_D"] - 1.0) < 1e-9:
        return "F5-tfs-offset-divided-by-N^D"
    if v["monitor"] in ("shape_channels", "fun_equals_sampled", "multi_channel", "normalisation", "scale_factor") and involves(g, "RandomDiscontinuities") and w.get("D", 1) >= 2:
        return "F6-random-discontinuities-D-channels"
    return None
