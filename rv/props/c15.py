"""C15  Fourier interpolation and resolution changes are exact for band-limited states.

Oracle: trigonometric polynomials evaluated analytically at arbitrary points / on the model's own grids.
Monitors: interp_grid (any state, at its own grid points), interp_anywhere (Nyquist-free polynomials, x in [-2L,3L]^D),
map_finer / map_coarser (all parity combinations incl. M = N +- 1), roundtrip, mean_preserved (arbitrary states).
"""
import numpy as np
from rv import env
from rv.refmodel import grid as G

PROP = "C15"
RULE = ("cases = D x N x channel count x L; per case: grid-point reproduction for white noise and checkerboards, off-grid evaluation of random polynomials at random points, every "
        "target resolution M in a window around N (all four parity combinations, M = N +- 1 included) that still resolves the polynomial; distinct = (monitor, D, C, N parity, "
        "M parity, M-N sign); non-trivial = polynomial has a non-constant mode / state non-constant")
REQUIRED = {"interp_grid": {"quick": 40, "thorough": 200}, "interp_anywhere": {"quick": 40, "thorough": 200}, "map_finer": {"quick": 80, "thorough": 500},
            "map_coarser": {"quick": 40, "thorough": 300}, "roundtrip": {"quick": 80, "thorough": 500}, "mean_preserved": {"quick": 100, "thorough": 600}}
ASSUMPTIONS = ["off-grid and resolution-change exactness is asserted for Nyquist-free trigonometric polynomials only", "float64"]
EPS = np.finfo(float).eps


def cases(tier, seed):
    out = []
    Ns = {1: [6, 7, 12, 15], 2: [5, 6, 9], 3: [4, 5]} if tier == "quick" else {1: list(range(4, 20)), 2: list(range(4, 13)), 3: list(range(4, 9))}
    for D in (1, 2, 3):
        for N in Ns[D]:
            for C in ((1, 3) if tier == "quick" else (1, 2, 3)):
                out.append(dict(kind="interp", D=D, N=N, C=C, rs=[seed, D, N, C], cost=N ** D / 30 + 1))
    return out


def run_case(case, bus, ex):
    import jax, jax.numpy as jnp
    rng = env.rng_for(*case["rs"])
    D, N, C = case["D"], case["N"], case["C"]
    L = float(rng.choice([1.0, 2 * np.pi, 10 ** rng.uniform(-1, 1)]))
    logn = 1 + np.log2(N ** D)
    # ---- own grid points, arbitrary states
    X = G.grid(D, L, N)
    for kind in ("white", "checker", "nyqfree", "band"):
        u = G.random_state(rng, kind, C, D, N)
        fi = ex.FourierInterpolator(jnp.asarray(u), domain_extent=L)
        pts = [tuple(int(i) for i in rng.integers(0, N, size=D)) for _ in range(8)]
        xs = jnp.asarray(np.stack([[X[(d,) + p] for d in range(D)] for p in pts]))
        vals = np.asarray(jax.vmap(fi)(xs))
        bus.tap("FourierInterpolator.__call__", len(pts))
        ref = np.stack([u[(slice(None),) + p] for p in pts])
        ok = vals.shape == ref.shape
        bus.judge("interp_grid", float(np.max(np.abs(vals - ref))) / float(np.max(np.abs(u))) if ok else np.inf, 64 * EPS * N ** D, (D, C, N % 2, kind),
                  sample=dict(D=D, N=N, C=C, L=L, state=kind, points=len(pts)), witness=dict(D=D, N=N, C=C, L=L, state=kind))
    for band in ("full", "low", "low2"):
        run_poly(bus, ex, rng, D, N, C, L, band)


def run_poly(bus, ex, rng, D, N, C, L, band):
    import jax, jax.numpy as jnp
    # ---- anywhere, Nyquist-free polynomials
    tp = G.random_trigpoly(rng, D, L, N, C=C, nterms=4, kmax=(None if band == "full" else max(1, (N - 1) // 4)))
    u = tp.on_grid(N)
    fi = ex.FourierInterpolator(jnp.asarray(u), domain_extent=L)
    xq = rng.uniform(-2 * L, 3 * L, size=(12, D))
    vals = np.asarray(jax.vmap(fi)(jnp.asarray(xq)))
    ref = np.stack([tp.eval(x.reshape((D,) + (1,) * 1))[:, 0] for x in xq])
    S = tp.scale()
    bus.judge("interp_anywhere", float(np.max(np.abs(vals - ref))) / S, 256 * EPS * N ** D * 5, (D, C, N % 2, band), sample=dict(D=D, N=N, C=C, L=L, poly=tp.describe(), x=xq[0].tolist()),
              witness=dict(D=D, N=N, C=C, L=L, poly=tp.describe()), nontrivial=tp.kmax() > 0)
    if D >= 2:
        # the documented indexing option: the same function sampled on the "xy" grid (first two array axes exchanged) must interpolate to the same values
        u_xy = np.swapaxes(u, 1, 2)
        fi_xy = ex.FourierInterpolator(jnp.asarray(u_xy), domain_extent=L, indexing="xy")
        vals_xy = np.asarray(jax.vmap(fi_xy)(jnp.asarray(xq)))
        bus.judge("interp_anywhere", float(np.max(np.abs(vals_xy - ref))) / S, 256 * EPS * N ** D * 5, (D, C, N % 2, band, "xy"), witness=dict(D=D, N=N, C=C, L=L, indexing="xy", poly=tp.describe()), nontrivial=tp.kmax() > 0)
    # ---- resolution changes
    Kp = max(max(abs(x) for x in k) for ch in tp.terms for k, _, _ in ch)
    Ms = sorted({N - 3, N - 2, N - 1, N + 1, N + 2, N + 3, 2 * N, 2 * N + 1, N // 2 + 1, 3 * N // 2} - {N})
    for M in Ms:
        if M < 3:
            continue
        got = np.asarray(ex.map_between_resolutions(jnp.asarray(u), M))
        bus.tap("map_between_resolutions")
        sig = (D, C, N % 2, M % 2, "finer" if M > N else "coarser", band)
        info = dict(D=D, N=N, M=M, C=C, L=L, poly=tp.describe())
        if got.shape != (C,) + (M,) * D:
            bus.flag("map_finer" if M > N else "map_coarser", f"shape {got.shape}", sig, witness=info)
            continue
        # mean of any state is preserved (judged below for white noise too)
        if 2 * Kp < M:                # still resolved strictly below the new Nyquist
            ref = tp.on_grid(M)
            mon = "map_finer" if M > N else "map_coarser"
            bus.judge(mon, float(np.max(np.abs(got - ref))) / S, 256 * EPS * (1 + np.log2(max(N, M) ** D)), sig, sample=info, witness=dict(info, err=float(np.max(np.abs(got - ref)))), nontrivial=Kp > 0)
            got_nz = np.asarray(ex.map_between_resolutions(jnp.asarray(u), M, oddball_zero=False))      # Nyquist-free input: the option must not matter
            bus.judge(mon, float(np.max(np.abs(got_nz - ref))) / S, 256 * EPS * (1 + np.log2(max(N, M) ** D)), sig + ("oddball_zero=False",), witness=dict(info, option="oddball_zero=False"), nontrivial=Kp > 0)
            back = np.asarray(ex.map_between_resolutions(jnp.asarray(got), N))
            bus.judge("roundtrip", float(np.max(np.abs(back - u))) / S, 256 * EPS * (1 + np.log2(max(N, M) ** D)), sig, sample=info, witness=info, nontrivial=Kp > 0)
        else:
            bus.outside("map_coarser", "target grid does not resolve the polynomial")
        for kind in ("white", "checker"):
            w = G.random_state(rng, kind, C, D, N) + rng.normal(size=(C,) + (1,) * D)
            gm = np.asarray(ex.map_between_resolutions(jnp.asarray(w), M))
            m0, m1 = w.mean(axis=G.axes(D)), gm.mean(axis=G.axes(D))
            bus.judge("mean_preserved", float(np.max(np.abs(m1 - m0))) / float(np.max(np.abs(w))), 64 * EPS * (1 + np.log2(max(N, M) ** D)), sig + (kind,),
                      sample=dict(D=D, N=N, M=M, state=kind), witness=dict(D=D, N=N, M=M, state=kind, m0=m0.tolist(), m1=m1.tolist()))
    same = np.asarray(ex.map_between_resolutions(jnp.asarray(u), N))
    bus.judge("roundtrip", float(np.max(np.abs(same - u))), 0.0, (D, C, N % 2, "identity"), witness=dict(D=D, N=N))
