"""Public IC generators of exponax.ic with option lattices (JSON-able specs -> real objects)."""
import itertools


def base_specs(D):
    """Yield dict(name, kw) for every public base generator valid in D dims (default + option variants)."""
    out = []
    for std_one, max_one in ((False, False), (True, False), (False, True)):
        out.append(dict(name="RandomTruncatedFourierSeries", kw=dict(cutoff=3, std_one=std_one, max_one=max_one)))
        out.append(dict(name="GaussianRandomField", kw=dict(powerlaw_exponent=3.0, std_one=std_one, max_one=max_one)))
        out.append(dict(name="DiffusedNoise", kw=dict(intensity=0.002, std_one=std_one, max_one=max_one)))
        out.append(dict(name="RandomDiscontinuities", kw=dict(num_discontinuities=3, zero_mean=True, std_one=std_one, max_one=max_one)))
        if D == 1:
            out.append(dict(name="RandomSineWaves1d", kw=dict(cutoff=4, std_one=std_one, max_one=max_one)))
    out.append(dict(name="RandomTruncatedFourierSeries", kw=dict(cutoff=2, offset_range=[0.5, 2.0])))
    out.append(dict(name="RandomTruncatedFourierSeries", kw=dict(cutoff=4, offset_range=[2.0, 2.0], max_one=False)))
    out.append(dict(name="RandomTruncatedFourierSeries", kw=dict(cutoff=3, offset_range=[0.5, 1.0], max_one=True)))
    out.append(dict(name="GaussianRandomField", kw=dict(powerlaw_exponent=2.0, zero_mean=False, domain_extent=3.0)))
    out.append(dict(name="DiffusedNoise", kw=dict(intensity=0.01, zero_mean=False, domain_extent=2.0)))
    out.append(dict(name="RandomDiscontinuities", kw=dict(num_discontinuities=2, zero_mean=False, domain_extent=2.5, value_range=[0.5, 1.5])))
    out.append(dict(name="RandomGaussianBlobs", kw=dict(num_blobs=2)))
    out.append(dict(name="RandomGaussianBlobs", kw=dict(num_blobs=1, one_complement=True, domain_extent=3.0)))
    out.append(dict(name="RandomGaussianBlobs", kw=dict(num_blobs=1)))
    out.append(dict(name="RandomGaussianBlobs", kw=dict(num_blobs=1, position_range=[0.2, 0.8], variance_range=[0.04, 0.08])))
    out.append(dict(name="RandomGaussianBlobs", kw=dict(num_blobs=1, position_range=[0.3, 0.5], variance_range=[0.04, 0.08], one_complement=True, domain_extent=2.0)))
    out.append(dict(name="WhiteNoise", kw=dict()))
    out.append(dict(name="WhiteNoise", kw=dict(std=2.5)))
    if D == 1:
        out.append(dict(name="RandomSineWaves1d", kw=dict(cutoff=3, offset_range=[0.5, 1.5], domain_extent=2.0)))
        out.append(dict(name="RandomSineWaves1d", kw=dict(cutoff=2, amplitude_range=[0.5, 1.0], phase_range=[0.0, 1.0])))
        out.append(dict(name="RandomSineWaves1d", kw=dict(cutoff=3, offset_range=[0.5, 1.5], max_one=True)))
    return out


def build(ex, D, spec):
    """spec: dict(name, kw) or wrappers dict(name='Scaled'|'Clamping'|'MultiChannel', inner=..., ...)."""
    ic = ex.ic
    n = spec["name"]
    if n == "Scaled":
        return ic.ScaledICGenerator(build(ex, D, spec["inner"]), spec["scale"])
    if n == "Clamping":
        return ic.ClampingICGenerator(build(ex, D, spec["inner"]), tuple(spec["limits"]))
    if n == "MultiChannel":
        return ic.RandomMultiChannelICGenerator(tuple(build(ex, D, s) for s in spec["inner"]))
    kw = {k: (tuple(v) if isinstance(v, list) else v) for k, v in spec["kw"].items()}
    return getattr(ic, n)(D, **kw)


def n_channels(spec):
    if spec["name"] == "MultiChannel":
        return sum(n_channels(s) for s in spec["inner"])
    if spec["name"] in ("Scaled", "Clamping"):
        return n_channels(spec["inner"])
    return 1


def has_fun_form(spec):
    n = spec["name"]
    if n in ("RandomDiscontinuities", "RandomGaussianBlobs", "RandomSineWaves1d"):
        return True
    if n == "Scaled":
        return has_fun_form(spec["inner"])
    if n == "MultiChannel":
        return all(has_fun_form(s) for s in spec["inner"])
    return False


def domain_extent(spec):
    if spec["name"] in ("Scaled", "Clamping"):
        return domain_extent(spec["inner"])
    if spec["name"] == "MultiChannel":
        return domain_extent(spec["inner"][0])
    return spec["kw"].get("domain_extent", 1.0)
