"""The stepper zoo: every exported BaseStepper subclass with generators of valid intents.

An *intent* is a JSON-able dict  {cls, D, N, L, dt, kw}  - exactly what a caller passes. The
zoo builds the real object from it; reference models read the same intent independently.
"""
import numpy as np

# name -> spec.  dims: supported D.  sig: "phys" (D,L,N,dt) or "norm" (D,N).  ch: channels(D, kw)
ARRAY_ARGS = {"velocity", "diffusivity", "dispersivity"}
ARRAY_CLASSES = {"stepper.Advection", "stepper.Diffusion", "stepper.AdvectionDiffusion", "stepper.Dispersion"}


def _u(rng, lo, hi):
    return float(rng.uniform(lo, hi))


def _sgn(rng):
    return float(rng.choice([-1.0, 1.0]))


def _spd(rng, D):
    if rng.uniform() < 0.5 and D >= 2:
        # strongly coupled: equal diagonal, off-diagonals close to the positive-definiteness limit (any over-counting of the mixed terms makes it indefinite)
        rho = _u(rng, 0.7, 0.95) / (D - 1)
        A = np.full((D, D), rho) + (1 - rho) * np.eye(D)
        sgn = rng.choice([-1.0, 1.0], size=D)
        return (A * np.outer(sgn, sgn) * _u(rng, 0.005, 0.05)).tolist()
    A = rng.normal(size=(D, D))
    A = A @ A.T / D + 0.2 * np.eye(D)
    return (A * 0.05).tolist()


def _lincoef(rng, maxorder=4, scale=1.0):
    """Dissipative-ish generic coefficient list a_0..a_m (a_2>0 damping, a_4<0 damping)."""
    m = int(rng.integers(1, maxorder + 1))
    c = [0.0] * (m + 1)
    c[0] = _u(rng, -0.3, 0.1) * scale
    if m >= 1:
        c[1] = _u(rng, -1, 1) * scale
    if m >= 2:
        c[2] = _u(rng, 0.005, 0.05) * scale
    if m >= 3:
        c[3] = _u(rng, -0.01, 0.01) * scale
    if m >= 4:
        c[4] = -_u(rng, 1e-5, 1e-3) * scale
    if m >= 5:
        c[5] = _u(rng, -1e-5, 1e-5) * scale
    if m >= 6:
        c[6] = _u(rng, 1e-9, 1e-7) * scale
    return c


def g_advection(rng, D, v):
    return {"velocity": _u(rng, -2, 2) if v == 0 else [_u(rng, -2, 2) for _ in range(D)]}


def g_diffusion(rng, D, v):
    if v == 0:
        return {"diffusivity": _u(rng, 0.001, 0.1)}
    if v == 1:
        return {"diffusivity": [_u(rng, 0.001, 0.1) for _ in range(D)]}
    return {"diffusivity": _spd(rng, D)}


def g_advdiff(rng, D, v):
    kw = g_advection(rng, D, v % 2)
    kw.update(g_diffusion(rng, D, v % 3))
    return kw


def g_dispersion(rng, D, v):
    return {"dispersivity": _u(rng, -1, 1) if v % 2 == 0 else [_u(rng, -1, 1) for _ in range(D)],
            "advect_on_diffusion": bool(v // 2 % 2)}


def g_hyper(rng, D, v):
    return {"hyper_diffusivity": _u(rng, 1e-5, 1e-3), "diffuse_on_diffuse": bool(v % 2)}


def g_wave(rng, D, v):
    return {"speed_of_sound": _u(rng, 0.3, 3.0)}


def g_burgers(rng, D, v):
    return {"diffusivity": _u(rng, 0.01, 0.2), "convection_scale": _u(rng, 0.3, 1.5) * (1 if v % 5 else -1),
            "single_channel": bool(v % 2), "conservative": bool(v // 2 % 2)}


def g_kdv(rng, D, v):
    return {"convection_scale": _u(rng, -6, -1), "diffusivity": _u(rng, 0.0, 0.05), "dispersivity": _u(rng, 0.2, 1.0) * 1e-2,
            "hyper_diffusivity": _u(rng, 1e-5, 1e-4), "advect_over_diffuse": bool(v // 4 % 2), "diffuse_over_diffuse": bool(v // 8 % 2),
            "single_channel": bool(v % 2), "conservative": bool(v // 2 % 2 == 0)}      # low variant bits = channel/conservation form (every quick tier reaches all four)


def g_ks(rng, D, v):
    return {"gradient_norm_scale": _u(rng, 0.5, 1.5), "second_order_scale": _u(rng, 0.5, 1.5) * 1e-2,
            "fourth_order_scale": _u(rng, 0.5, 1.5) * 1e-4}


def g_ksc(rng, D, v):
    return {"convection_scale": _u(rng, 0.5, 1.5), "second_order_scale": _u(rng, 0.5, 1.5) * 1e-2,
            "fourth_order_scale": _u(rng, 0.5, 1.5) * 1e-4, "single_channel": bool(v % 2), "conservative": bool(v // 2 % 2 == 0)}


def g_nsv(rng, D, v):
    return {"diffusivity": _u(rng, 0.001, 0.05), "vorticity_convection_scale": _u(rng, 0.5, 1.5), "drag": -_u(rng, 0, 0.2) * (v % 2)}


def g_kfv(rng, D, v):
    return {"diffusivity": _u(rng, 0.001, 0.05), "convection_scale": _u(rng, 0.5, 1.5), "drag": -_u(rng, 0.0, 0.2),
            "injection_mode": int(rng.integers(1, 3)), "injection_scale": _u(rng, 0.3, 1.5)}


def g_ns3(rng, D, v):
    return {"diffusivity": _u(rng, 0.005, 0.05), "drag": -_u(rng, 0, 0.2) * (v % 2)}


def g_kf3(rng, D, v):
    return {"diffusivity": _u(rng, 0.005, 0.05), "drag": -_u(rng, 0, 0.2) * (v % 2),
            "injection_mode": int(rng.integers(1, 3)), "injection_scale": _u(rng, 0.3, 1.5)}


def g_allen(rng, D, v):
    return {"diffusivity": _u(rng, 0.001, 0.01), "first_order_coefficient": _u(rng, 0.5, 1.5), "third_order_coefficient": -_u(rng, 0.5, 1.5)}


def g_ch(rng, D, v):
    return {"diffusivity": _u(rng, 0.005, 0.02), "gamma": _u(rng, 5e-4, 2e-3), "first_order_coefficient": -_u(rng, 0.5, 1.5),
            "third_order_coefficient": _u(rng, 0.5, 1.5)}


def g_fisher(rng, D, v):
    return {"diffusivity": _u(rng, 0.001, 0.05), "reactivity": _u(rng, 0.5, 2.0)}


def g_gs(rng, D, v):
    return {"diffusivity_1": _u(rng, 1e-5, 4e-5), "diffusivity_2": _u(rng, 0.5e-5, 2e-5), "feed_rate": _u(rng, 0.02, 0.06), "kill_rate": _u(rng, 0.05, 0.065)}


def g_sh(rng, D, v):
    return {"reactivity": _u(rng, 0.3, 0.9), "critical_number": _u(rng, 0.8, 1.2),
            "polynomial_coefficients": [0.0, 0.0, _u(rng, 0.5, 1.5), -_u(rng, 0.5, 1.5)]}


def g_genlin(rng, D, v):
    return {"linear_coefficients": _lincoef(rng, maxorder=4 if v == 0 else 6)}


def g_normlin(rng, D, v):
    return {"normalized_linear_coefficients": _lincoef(rng, scale=0.02)}


def g_difflin(rng, D, v):
    return {"linear_difficulties": [_u(rng, -0.2, 0.1), _u(rng, -3, 3), _u(rng, 0.5, 6)][: int(rng.integers(2, 4))]}


def g_difflinsimple(rng, D, v):
    o = int(rng.integers(1, 4))
    return {"difficulty": {1: _u(rng, -3, 3), 2: _u(rng, 0.5, 6), 3: _u(rng, -3, 3)}[o], "order": o}


def g_genconv(rng, D, v):
    return {"linear_coefficients": _lincoef(rng), "convection_scale": _u(rng, 0.3, 1.5), "single_channel": bool(v % 2),
            "conservative": bool(v // 2 % 2)}


def g_normconv(rng, D, v):
    return {"normalized_linear_coefficients": _lincoef(rng, scale=0.02), "normalized_convection_scale": _u(rng, 0.01, 0.05),
            "single_channel": bool(v % 2), "conservative": bool(v // 2 % 2)}


def g_diffconv(rng, D, v):
    return {"linear_difficulties": [0.0, _u(rng, -2, 2), _u(rng, 2, 6)], "convection_difficulty": _u(rng, 1, 5),
            "single_channel": bool(v % 2), "conservative": bool(v // 2 % 2), "maximum_absolute": _u(rng, 0.5, 2.0)}


def g_gengn(rng, D, v):
    return {"linear_coefficients": [0.0, 0.0, -_u(rng, 0.5, 1.5) * 1e-2, 0.0, -_u(rng, 0.5, 1.5) * 1e-4], "gradient_norm_scale": _u(rng, 0.5, 1.5)}


def g_normgn(rng, D, v):
    return {"normalized_linear_coefficients": [0.0, 0.0, -_u(rng, 0.5, 1.5) * 1e-3, 0.0, -_u(rng, 0.5, 1.5) * 1e-6],
            "normalized_gradient_norm_scale": _u(rng, 0.5, 1.5) * 1e-3}


def g_diffgn(rng, D, v):
    return {"linear_difficulties": [0.0, 0.0, -_u(rng, 0.05, 0.2), 0.0, -_u(rng, 0.1, 0.5)], "gradient_norm_difficulty": _u(rng, 0.02, 0.1),
            "maximum_absolute": _u(rng, 0.5, 2.0)}


def g_genpoly(rng, D, v):
    return {"linear_coefficients": [_u(rng, 0.2, 1.0), 0.0, _u(rng, 0.005, 0.05)], "polynomial_coefficients": [0.0, 0.0, -_u(rng, 0.2, 1.0), -_u(rng, 0, 0.3)][: 3 + v % 2]}


def g_normpoly(rng, D, v):
    return {"normalized_linear_coefficients": [_u(rng, 0.002, 0.02), 0.0, _u(rng, 1e-5, 1e-4)], "normalized_polynomial_coefficients": [0.0, 0.0, -_u(rng, 0.002, 0.02)]}


def g_diffpoly(rng, D, v):
    return {"linear_difficulties": [_u(rng, 0.002, 0.02), 0.0, _u(rng, 0.02, 0.5)], "polynomial_difficulties": [0.0, 0.0, -_u(rng, 0.002, 0.02)]}


def g_gennl(rng, D, v):
    return {"linear_coefficients": _lincoef(rng), "nonlinear_coefficients": [_u(rng, -0.5, 0.5), -_u(rng, 0.3, 1.0), _u(rng, -0.5, 0.5)]}


def g_normnl(rng, D, v):
    return {"normalized_linear_coefficients": _lincoef(rng, scale=0.02), "normalized_nonlinear_coefficients": [_u(rng, -0.02, 0.02), -_u(rng, 0.01, 0.05), _u(rng, -1e-3, 1e-3)]}


def g_diffnl(rng, D, v):
    return {"linear_difficulties": [0.0, _u(rng, -2, 2), _u(rng, 2, 6)], "nonlinear_difficulties": [_u(rng, -0.02, 0.02), -_u(rng, 1, 4), _u(rng, -1, 1)],
            "maximum_absolute": _u(rng, 0.5, 2.0)}


def g_genvort(rng, D, v):
    return {"vorticity_convection_scale": _u(rng, 0.5, 1.5), "linear_coefficients": [-_u(rng, 0, 0.1) * (v % 2), 0.0, _u(rng, 0.001, 0.05)],
            "injection_mode": int(rng.integers(1, 3)), "injection_scale": 0.0 if v % 3 == 0 else _u(rng, 0.3, 1.5)}


def _chD(D, kw):
    return 1 if kw.get("single_channel") else D


SPECS = {
    "stepper.Advection": dict(dims=(1, 2, 3), sig="phys", gen=g_advection, ch=lambda D, kw: 1, linear=True, nvar=2),
    "stepper.Diffusion": dict(dims=(1, 2, 3), sig="phys", gen=g_diffusion, ch=lambda D, kw: 1, linear=True, nvar=3),
    "stepper.AdvectionDiffusion": dict(dims=(1, 2, 3), sig="phys", gen=g_advdiff, ch=lambda D, kw: 1, linear=True, nvar=6),
    "stepper.Dispersion": dict(dims=(1, 2, 3), sig="phys", gen=g_dispersion, ch=lambda D, kw: 1, linear=True, nvar=4),
    "stepper.HyperDiffusion": dict(dims=(1, 2, 3), sig="phys", gen=g_hyper, ch=lambda D, kw: 1, linear=True, nvar=2),
    "stepper.Wave": dict(dims=(1, 2, 3), sig="phys", gen=g_wave, ch=lambda D, kw: 2, linear=True, nvar=1),
    "stepper.Burgers": dict(dims=(1, 2, 3), sig="phys", gen=g_burgers, ch=_chD, linear=False, nvar=4),
    "stepper.KortewegDeVries": dict(dims=(1, 2, 3), sig="phys", gen=g_kdv, ch=_chD, linear=False, nvar=16),
    "stepper.KuramotoSivashinsky": dict(dims=(1, 2, 3), sig="phys", gen=g_ks, ch=lambda D, kw: 1, linear=False, nvar=1),
    "stepper.KuramotoSivashinskyConservative": dict(dims=(1, 2, 3), sig="phys", gen=g_ksc, ch=_chD, linear=False, nvar=4),
    "stepper.NavierStokesVorticity": dict(dims=(2,), sig="phys", gen=g_nsv, ch=lambda D, kw: 1, linear=False, nvar=2),
    "stepper.KolmogorovFlowVorticity": dict(dims=(2,), sig="phys", gen=g_kfv, ch=lambda D, kw: 1, linear=False, nvar=1, forced=True),
    "stepper.NavierStokesVelocity": dict(dims=(3,), sig="phys", gen=g_ns3, ch=lambda D, kw: 3, linear=False, nvar=2),
    "stepper.KolmogorovFlowVelocity": dict(dims=(3,), sig="phys", gen=g_kf3, ch=lambda D, kw: 3, linear=False, nvar=2, forced=True),
    "reaction.AllenCahn": dict(dims=(1, 2, 3), sig="phys", gen=g_allen, ch=lambda D, kw: 1, linear=False, nvar=1),
    "reaction.CahnHilliard": dict(dims=(1, 2, 3), sig="phys", gen=g_ch, ch=lambda D, kw: 1, linear=False, nvar=1),
    "reaction.FisherKPP": dict(dims=(1, 2, 3), sig="phys", gen=g_fisher, ch=lambda D, kw: 1, linear=False, nvar=1),
    "reaction.GrayScott": dict(dims=(1, 2, 3), sig="phys", gen=g_gs, ch=lambda D, kw: 2, linear=False, nvar=1),
    "reaction.SwiftHohenberg": dict(dims=(1, 2, 3), sig="phys", gen=g_sh, ch=lambda D, kw: 1, linear=False, nvar=1),
    "generic.GeneralLinearStepper": dict(dims=(1, 2, 3), sig="phys", gen=g_genlin, ch=lambda D, kw: 1, linear=True, nvar=2),
    "generic.NormalizedLinearStepper": dict(dims=(1, 2, 3), sig="norm", gen=g_normlin, ch=lambda D, kw: 1, linear=True, nvar=1),
    "generic.DifficultyLinearStepper": dict(dims=(1, 2, 3), sig="norm", gen=g_difflin, ch=lambda D, kw: 1, linear=True, nvar=1),
    "generic.DifficultyLinearStepperSimple": dict(dims=(1, 2, 3), sig="norm", gen=g_difflinsimple, ch=lambda D, kw: 1, linear=True, nvar=1),
    "generic.GeneralConvectionStepper": dict(dims=(1, 2, 3), sig="phys", gen=g_genconv, ch=_chD, linear=False, nvar=4),
    "generic.NormalizedConvectionStepper": dict(dims=(1, 2, 3), sig="norm", gen=g_normconv, ch=_chD, linear=False, nvar=4),
    "generic.DifficultyConvectionStepper": dict(dims=(1, 2, 3), sig="norm", gen=g_diffconv, ch=_chD, linear=False, nvar=4),
    "generic.GeneralGradientNormStepper": dict(dims=(1, 2, 3), sig="phys", gen=g_gengn, ch=lambda D, kw: 1, linear=False, nvar=1),
    "generic.NormalizedGradientNormStepper": dict(dims=(1, 2, 3), sig="norm", gen=g_normgn, ch=lambda D, kw: 1, linear=False, nvar=1),
    "generic.DifficultyGradientNormStepper": dict(dims=(1, 2, 3), sig="norm", gen=g_diffgn, ch=lambda D, kw: 1, linear=False, nvar=1),
    "generic.GeneralPolynomialStepper": dict(dims=(1, 2, 3), sig="phys", gen=g_genpoly, ch=lambda D, kw: 1, linear=False, nvar=2),
    "generic.NormalizedPolynomialStepper": dict(dims=(1, 2, 3), sig="norm", gen=g_normpoly, ch=lambda D, kw: 1, linear=False, nvar=1),
    "generic.DifficultyPolynomialStepper": dict(dims=(1, 2, 3), sig="norm", gen=g_diffpoly, ch=lambda D, kw: 1, linear=False, nvar=1),
    "generic.GeneralNonlinearStepper": dict(dims=(1, 2, 3), sig="phys", gen=g_gennl, ch=lambda D, kw: 1, linear=False, nvar=1),
    "generic.NormalizedNonlinearStepper": dict(dims=(1, 2, 3), sig="norm", gen=g_normnl, ch=lambda D, kw: 1, linear=False, nvar=1),
    "generic.DifficultyNonlinearStepper": dict(dims=(1, 2, 3), sig="norm", gen=g_diffnl, ch=lambda D, kw: 1, linear=False, nvar=1),
    "generic.GeneralVorticityConvectionStepper": dict(dims=(2,), sig="phys", gen=g_genvort, ch=lambda D, kw: 1, linear=False, nvar=6, forced="maybe"),
}

TUPLE_ARGS = {"linear_coefficients", "normalized_linear_coefficients", "linear_difficulties", "polynomial_coefficients",
              "normalized_polynomial_coefficients", "polynomial_difficulties", "nonlinear_coefficients",
              "normalized_nonlinear_coefficients", "nonlinear_difficulties"}


def exported(ex):
    """Qualified names of every exported BaseStepper subclass of the tree under test."""
    out = []
    for modname, mod in (("stepper", ex.stepper), ("reaction", ex.stepper.reaction), ("generic", ex.stepper.generic)):
        for n in mod.__all__:
            obj = getattr(mod, n, None)
            if isinstance(obj, type) and issubclass(obj, ex.BaseStepper):
                out.append(f"{modname}.{n}")
    return out


def get_class(ex, name):
    modname, n = name.split(".")
    mod = {"stepper": ex.stepper, "reaction": ex.stepper.reaction, "generic": ex.stepper.generic}[modname]
    return getattr(mod, n)


def convert_kw(name, kw):
    import jax.numpy as jnp

    out = {}
    for k, v in kw.items():
        if k in TUPLE_ARGS:
            out[k] = tuple(x if type(x) is int else float(x) for x in v)        # integer-valued intents (see intify) stay Python ints
        elif name in ARRAY_CLASSES and k in ARRAY_ARGS and isinstance(v, (list, tuple)):
            out[k] = jnp.asarray(np.asarray(v, float))
        else:
            out[k] = v
    return out


def make_intent(rng, name, D, N, L=None, dt=None, variant=0, order=None):
    spec = SPECS[name]
    kw = spec["gen"](rng, D, variant)
    if order is not None and not spec["linear"]:
        kw["order"] = int(order)
    it = dict(cls=name, D=int(D), N=int(N), kw=kw)
    if spec["sig"] == "phys":
        it["L"] = float(L if L is not None else rng.choice([1.0, 2 * np.pi, 3.7]))
        it["dt"] = float(dt if dt is not None else 10 ** rng.uniform(-3, -1.5))
    return it


def intify(it):
    """The same kind of configuration typed with Python ints (`GeneralLinearStepper(1, 2, 64, 1, linear_coefficients=(0, -1, 1))`): integer box size,
    integer time step and integer entries of every coefficient tuple (sign of the drawn value kept, magnitude 1-3).  Union-typed float|Array arguments
    are left alone: the library documents float or array for them and refuses ints."""
    if "L" in it:
        it["L"] = int([1, 2, 7, 5][it["N"] % 4])
        it["dt"] = int(np.sign(it["dt"]) or 1) * (1 + it["N"] % 2)
    for k, v in it["kw"].items():
        if k in TUPLE_ARGS:
            it["kw"][k] = [0 if x == 0 else int(np.sign(x)) * (1 + int(abs(x) * 1e3) % 3) for x in v]
    return it


HALF_FRACTION = {"reaction.AllenCahn", "reaction.CahnHilliard", "reaction.SwiftHohenberg", "reaction.GrayScott"}


def nontrivial_N(name, N):
    """Smallest grid size >= N (same parity where possible) on which the class's nonlinear term keeps at least one non-constant mode:
    the retained band is |k| <= fraction*(N//2) - 1, i.e. N >= 6 for the 2/3 rule and N >= 8 for the 1/2 rule (below that the nonlinearity only sees the mean)."""
    if SPECS[name]["linear"]:
        return N
    need = 8 if name in HALF_FRACTION else 6
    if N >= need:
        return N
    return need + ((N - need) % 2)


CONTOURS = [(32, 1.0), (16, 0.5), (24, 2.0), (64, 0.25)]


def vary_contour(rng, it, prob=0.3):
    """Documented constructor options of every semi-linear stepper: with probability `prob` use a non-default contour (num_circle_points, circle_radius)."""
    if not SPECS[it["cls"]]["linear"] and it["kw"].get("order", 2) != 0 and rng.uniform() < prob:
        M, r = CONTOURS[int(rng.integers(0, len(CONTOURS)))]
        it["kw"]["num_circle_points"], it["kw"]["circle_radius"] = M, r
    return it


def vary_dealiasing(rng, it, prob=0.3):
    """Documented option of every semi-linear stepper: with probability `prob` use a non-default dealiasing fraction (1.0 = keep everything below Nyquist)."""
    if not SPECS[it["cls"]]["linear"] and rng.uniform() < prob:
        it["kw"]["dealiasing_fraction"] = float(rng.choice([1.0, 0.5, 0.8, 2 / 3]))
    return it


def build(ex, it, **override):
    """Build the real stepper from an intent (what the caller would type)."""
    spec = SPECS[it["cls"]]
    cls = get_class(ex, it["cls"])
    kw = dict(it["kw"])
    kw.update(override)
    kw = convert_kw(it["cls"], kw)
    if spec["sig"] == "phys":
        return cls(it["D"], it["L"], it["N"], it["dt"], **kw)
    return cls(it["D"], it["N"], **kw)


def channels(it):
    return SPECS[it["cls"]]["ch"](it["D"], it["kw"])
