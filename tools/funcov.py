#!/usr/bin/env python3
"""Function-level reach of the workloads: which functions/methods of exponax/ are executed (at trace or eager time) by a sample of each property's quick cases.
Not a verdict - used to find library code no monitor ever drives.  usage: /venv/bin/python tools/funcov.py [ncases]"""
import ast, importlib, os, sys
HERE = os.path.dirname(os.path.dirname(os.path.abspath(__file__)))
sys.path.insert(0, HERE)
from rv import env
ex = env.bootstrap()
sys.path.append(env.DEPS)
from rv.bus import Bus
root = os.path.join(env.REPO, "exponax")
seen = set()


def prof(frame, event, arg):
    if event == "call":
        fn = frame.f_code.co_filename
        if fn.startswith(root):
            seen.add((os.path.relpath(fn, root), frame.f_code.co_name, frame.f_code.co_firstlineno))
n = int(sys.argv[1]) if len(sys.argv) > 1 else 25
sys.setprofile(prof)
for i in range(1, 21):
    mod = importlib.import_module(f"rv.props.c{i:02d}")
    cs = [c for c in mod.cases("quick", 0) if c.get("x64", True)]
    step = max(1, len(cs) // n)
    bus = Bus(f"C{i:02d}")
    for c in cs[::step][:n]:
        try:
            mod.run_case(c, bus, ex)
        except Exception as e:  # noqa: BLE001
            pass
sys.setprofile(None)
alldefs = []
for dp, dn, fns in os.walk(root):
    if "viz" in dp:
        continue
    for f in fns:
        if f.endswith(".py"):
            p = os.path.join(dp, f)
            t = ast.parse(open(p).read())
            for node in ast.walk(t):
                if isinstance(node, (ast.FunctionDef, ast.AsyncFunctionDef)):
                    alldefs.append((os.path.relpath(p, root), node.name, node.lineno))
seen_keys = {(a, b) for a, b, _ in seen}
missing = sorted({(a, b) for a, b, _ in alldefs} - seen_keys)
print(f"functions defined (excluding viz): {len({(a, b) for a, b, _ in alldefs})}; reached: {len({(a, b) for a, b, _ in alldefs} & seen_keys)}")
for a, b in missing:
    print("  never reached:", a, b)
