#!/usr/bin/env python3
"""Regenerates the result tables of DESIGN.md section 12 from seeded/*/meta.json and selftest/results.json."""
import glob, json, os, re, sys
HERE = os.path.dirname(os.path.dirname(os.path.abspath(__file__)))
sys.path.insert(0, os.path.join(HERE, "selftest"))
from catalogue import M


def seeded_table():
    rows = ["| id | property | change (written by an independent sub-agent) | needs to manifest | confirmed (demo unchanged/changed, tests) | checks run -> exit, monitors that fired |", "|---|---|---|---|---|---|"]
    for d in sorted(glob.glob(os.path.join(HERE, "seeded", "*"))):
        mp = os.path.join(d, "meta.json")
        if not os.path.exists(mp):
            continue
        m = json.load(open(mp))
        c = m.get("confirmed_by_me", {})
        tests = (c.get("tests", {}).get("summary") or ["not run"])[0].split(" in ")[0]
        conf = f"{c.get('demo_unchanged_rc')}/{c.get('demo_changed_rc')}, {tests}"
        runs = "; ".join(f"{p} {r.get('tier', 'quick')} -> {r['rc']} ({', '.join(r['monitors']) or '-'})" for p, r in sorted(m.get("checks_run", {}).items()))
        clean = lambda s: re.sub(r"\s+", " ", str(s)).replace("|", "/")[:260]
        rows.append(f"| {os.path.basename(d)} | {m.get('property')} | {clean(m.get('summary'))} | {clean(m.get('needs_to_manifest'))} | {conf} | {runs} |")
    return "\n".join(rows)


def break_table():
    res = json.load(open(os.path.join(HERE, "selftest", "results.json"))) if os.path.exists(os.path.join(HERE, "selftest", "results.json")) else {}
    rows = ["| break | file | expected | result per check (exit code, monitors) |", "|---|---|---|---|"]
    for name, m in M.items():
        r = res.get(name, {})
        cells = []
        for p, x in sorted(r.get("props", {}).items()):
            cells.append(f"{p}: {x}" if isinstance(x, str) else f"{p}: {x['rc']} ({', '.join(x['monitors']) or '-'})")
        exp = "silent (equivalent change)" if m.get("equivalent") else "caught"
        rows.append(f"| {name} | {m['file'].replace('exponax/', '')} | {exp} | {'; '.join(cells) or 'not run yet'} |")
    return "\n".join(rows)


def main():
    p = os.path.join(HERE, "DESIGN.md")
    s = open(p).read()
    for tag, fn in (("seeded-table", seeded_table), ("break-table", break_table)):
        a, b = f"<!-- BEGIN {tag} -->", f"<!-- END {tag} -->"
        if a in s and b in s:
            s = s[: s.index(a) + len(a)] + "\n" + fn() + "\n" + s[s.index(b):]
    open(p, "w").write(s)


if __name__ == "__main__":
    main()
