import ast,sys
src=open(sys.argv[1]).read()
t=ast.parse(src)
for n in ast.walk(t):
    if isinstance(n,(ast.FunctionDef,ast.ClassDef,ast.Module,ast.AsyncFunctionDef)):
        if n.body and isinstance(n.body[0],ast.Expr) and isinstance(getattr(n.body[0],'value',None),ast.Constant) and isinstance(n.body[0].value.value,str):
            n.body=n.body[1:] or [ast.Pass()]
print(ast.unparse(t))
