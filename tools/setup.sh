#!/bin/bash
# Installs the pure-python third-party pieces the monitors need (icontract, mpmath,
# jsonschema) from the offline wheelhouse into the git-ignored /verif/.deps.
set -e
HERE="$(cd "$(dirname "${BASH_SOURCE[0]}")/.." && pwd)"
if [ -f "$HERE/.deps/.ok" ]; then exit 0; fi
mkdir -p "$HERE/.deps"
PIP_NO_INDEX=1 /venv/bin/pip install --quiet --no-index --find-links /opt/veriftools/wheels \
   --target "$HERE/.deps" --upgrade icontract mpmath jsonschema 
touch "$HERE/.deps/.ok"
