#!/bin/bash
# usage: tools/sweep.sh <tier> <seed> [<seed> ...]   -> runs every registered check for each seed, prints one line per (check, seed); no evidence written
cd "$(dirname "$0")/.."
TIER=$1; shift
for S in "$@"; do
  for P in $(python3 -c "import json;print(' '.join(c['property_id'] for c in json.load(open('MANIFEST.json'))['checks']))"); do
    t0=$(date +%s)
    out=$(VERIF_SEED=$S PYTHONHASHSEED=0 ./check $P --tier $TIER --no-evidence 2>&1); rc=$?
    echo "seed=$S $P rc=$rc wall=$(( $(date +%s) - t0 ))s $(echo "$out" | grep -E '^(VIOLATION|INCONCLUSIVE)' | head -3 | tr '\n' ' ')"
    [ $rc -ne 0 ] && echo "$out" | grep -E "violation:|INCONCLUSIVE|Traceback|Error" | head -8
  done
done
