#!/usr/bin/env python3
"""Regenerates MANIFEST.json from the property modules present under rv/props."""
import json, os, sys
HERE = os.path.dirname(os.path.dirname(os.path.abspath(__file__)))
sys.path.insert(0, HERE)
props = [json.loads(l) for l in open(os.path.join(HERE, "properties.jsonl"))]
TEXT = json.load(open(os.path.join(HERE, "tools", "manifest_text.json")))
checks, na = [], []
for p in props:
    pid = p["id"]
    if os.path.exists(os.path.join(HERE, "rv", "props", pid.lower() + ".py")) and pid in TEXT:
        t = TEXT[pid]
        checks.append(dict(
            property_id=pid,
            quick_cmd=f"./check {pid} --tier quick",
            thorough_cmd=f"./check {pid} --tier thorough",
            evidence_file=f"/verif/evidence/{pid}.json",
            replay_cmd_template=f"./check {pid} --replay {{path}}",
            engine="rv",
            level_claimed=dict(category="exploration", text=t["text"], design_ref=f"DESIGN.md section 5, {pid}"),
            level_note=t["note"],
            technique=t["technique"]))
    else:
        na.append(dict(property_id=pid, reason="monitor not yet implemented in this commit of /verif (runtime monitoring applies; see DESIGN.md section 5)"))
m = dict(
    version=1,
    setup_cmd="./tools/setup.sh",
    hooks=dict(guard="EXPONAX_VERIF", enable="no source hooks: monitors are attached from the harness (rv/taps.py) to the imported tree; ./check exports EXPONAX_VERIF=1",
               baseline_off_cmd="cd /repo && env -u EXPONAX_VERIF /venv/bin/python -m pytest -q -p no:cacheprovider --timeout=900 -n 12",
               source_commits=[], add_only=True),
    engines=[dict(name="rv", path="/verif/rv", serves_properties=[c["property_id"] for c in checks],
                  kind_free_text="runtime monitors: reference-model oracles (NumPy/mpmath, never importing exponax) judging real calls of the tree under test, "
                                 "debug-callback taps inside jit/vmap/scan, offline history checkers, three-valued verdict")],
    checks=checks,
    notes="exit 0 held / 1 violation / 2 inconclusive (a monitor that observed too little). Known findings: /verif/known_findings.json.",
    not_applicable=na)
json.dump(m, open(os.path.join(HERE, "MANIFEST.json"), "w"), indent=1)
try:
    sys.path.append(os.path.join(HERE, ".deps"))
    import jsonschema
    jsonschema.validate(m, json.load(open(os.path.join(HERE, "tools", "MANIFEST.schema.json"))))
    print("MANIFEST.json valid:", len(checks), "checks,", len(na), "not claimed")
except ImportError:
    print("written (jsonschema not available)")
